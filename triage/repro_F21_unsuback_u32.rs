use mqtt_protocol_core::mqtt;
use mqtt_protocol_core::mqtt::packet::GenericPacketTrait;

#[test]
fn unsuback_u32_remaining_length_counts_the_whole_packet_id() {
    let p = mqtt::packet::v3_1_1::GenericUnsuback::<u32>::builder()
        .packet_id(0x0102_0304u32)
        .build()
        .unwrap();
    let bytes = p.to_continuous_buffer();
    // fixed header, remaining length, 4 id bytes
    assert_eq!(bytes.len(), 6);
    assert_eq!(bytes[1] as usize, bytes.len() - 2, "Remaining Length on the wire");
    assert_eq!(p.size(), bytes.len(), "size() agrees with the serialisation");
    let (q, consumed) = mqtt::packet::v3_1_1::GenericUnsuback::<u32>::parse(&bytes[2..]).unwrap();
    assert_eq!(consumed, 4);
    assert_eq!(q.packet_id(), 0x0102_0304u32);
    assert_eq!(q.to_continuous_buffer(), bytes);
}
