use mqtt_protocol_core::mqtt;
use mqtt::packet::GenericPacketTrait;
use mqtt::prelude::*;
use std::panic::{catch_unwind, AssertUnwindSafe};

type Ev = mqtt::connection::Event;
fn show(tag: &str, evs: &[Ev]) { println!("{tag}: {} events", evs.len()); for e in evs { println!("    {e}"); } }
fn feed<R: mqtt::connection::role::RoleType>(c: &mut mqtt::Connection<R>, bytes: &[u8]) -> Vec<Ev> {
    let mut cur = mqtt::common::Cursor::new(bytes);
    let mut all = vec![];
    while (cur.position() as usize) < bytes.len() { all.extend(c.recv(&mut cur)); }
    all
}
fn v5_client_connected(props: Vec<mqtt::packet::Property>, clean: bool, sp: bool) -> mqtt::Connection<mqtt::role::Client> {
    let mut c = mqtt::Connection::<mqtt::role::Client>::new(mqtt::Version::V5_0);
    let mut b = mqtt::packet::v5_0::Connect::builder().client_id("c").unwrap().clean_start(clean);
    if !clean { b = b.props(vec![mqtt::packet::SessionExpiryInterval::new(100).unwrap().into()]); }
    let _ = c.send(b.build().unwrap().into());
    let ca = mqtt::packet::v5_0::Connack::builder().session_present(sp)
        .reason_code(mqtt::result_code::ConnectReasonCode::Success).props(props).build().unwrap();
    let _ = feed(&mut c, &ca.to_continuous_buffer());
    c
}

#[test] fn f01_server_connect_tam0() {
    let r = catch_unwind(|| {
        let mut s = mqtt::Connection::<mqtt::role::Server>::new(mqtt::Version::V5_0);
        let p = mqtt::packet::v5_0::Connect::builder().client_id("c").unwrap()
            .props(vec![mqtt::packet::TopicAliasMaximum::new(0).unwrap().into()]).build().unwrap();
        feed(&mut s, &p.to_continuous_buffer())
    });
    println!("F1 server CONNECT TopicAliasMaximum=0 -> {}", if r.is_err() {"PANIC"} else {"ok"});
}
#[test] fn f02_release_id0() {
    let r = catch_unwind(|| { let mut c = mqtt::Connection::<mqtt::role::Client>::new(mqtt::Version::V5_0); c.release_packet_id(0) });
    println!("F2 release_packet_id(0) -> {}", if r.is_err() {"PANIC"} else {"ok"});
}
#[test] fn f03_partial_frame_survives_close() {
    let mut c = mqtt::Connection::<mqtt::role::Client>::new(mqtt::Version::V3_1_1);
    let _ = c.send(mqtt::packet::v3_1_1::Connect::builder().client_id("c").unwrap().build().unwrap().into());
    let _ = feed(&mut c, &[0x20, 0x02, 0x00, 0x00]);
    // half a PUBLISH: header says 10 bytes, give 3
    let _ = feed(&mut c, &[0x30, 0x0a, 0x00]);
    let _ = c.notify_closed();
    let _ = c.send(mqtt::packet::v3_1_1::Connect::builder().client_id("c").unwrap().build().unwrap().into());
    let evs = feed(&mut c, &[0x20, 0x02, 0x00, 0x00]);
    show("F3 CONNACK after close with partial frame pending", &evs);
}
#[test] fn f04_keepalive_leak() {
    let mut s = mqtt::Connection::<mqtt::role::Server>::new(mqtt::Version::V3_1_1);
    let p = mqtt::packet::v3_1_1::Connect::builder().client_id("a").unwrap().keep_alive(10).build().unwrap();
    let _ = feed(&mut s, &p.to_continuous_buffer());
    let _ = s.notify_closed();
    let p = mqtt::packet::v3_1_1::Connect::builder().client_id("b").unwrap().keep_alive(0).build().unwrap();
    let evs = feed(&mut s, &p.to_continuous_buffer());
    show("F4 second client keep_alive=0", &evs);
}
#[test] fn f05_qos2_handled_survives_clean_start() {
    let mut s = mqtt::Connection::<mqtt::role::Server>::new(mqtt::Version::V3_1_1);
    let p = mqtt::packet::v3_1_1::Connect::builder().client_id("a").unwrap().clean_session(false).build().unwrap();
    let _ = feed(&mut s, &p.to_continuous_buffer());
    let _ = s.send(mqtt::packet::v3_1_1::Connack::builder().session_present(false).return_code(mqtt::result_code::ConnectReturnCode::Accepted).build().unwrap().into());
    let publ = mqtt::packet::v3_1_1::Publish::builder().topic_name("t").unwrap().qos(mqtt::packet::Qos::ExactlyOnce).packet_id(1u16).payload(b"x".to_vec()).build().unwrap();
    let e1 = feed(&mut s, &publ.to_continuous_buffer());
    println!("F5 first: notified={}", e1.iter().any(|e| matches!(e, Ev::NotifyPacketReceived(_))));
    let _ = s.notify_closed();
    let p = mqtt::packet::v3_1_1::Connect::builder().client_id("a").unwrap().clean_session(true).build().unwrap();
    let _ = feed(&mut s, &p.to_continuous_buffer());
    let _ = s.send(mqtt::packet::v3_1_1::Connack::builder().session_present(false).return_code(mqtt::result_code::ConnectReturnCode::Accepted).build().unwrap().into());
    let e2 = feed(&mut s, &publ.to_continuous_buffer());
    println!("F5 after clean start, same id: notified={}", e2.iter().any(|e| matches!(e, Ev::NotifyPacketReceived(_))));
}
#[test] fn f06_too_large_keeps_id() {
    let mut c = v5_client_connected(vec![mqtt::packet::MaximumPacketSize::new(10).unwrap().into()], true, false);
    let id = c.acquire_packet_id().unwrap();
    let publ = mqtt::packet::v5_0::Publish::builder().topic_name("topic/long/name").unwrap().qos(mqtt::packet::Qos::AtLeastOnce).packet_id(id).payload(b"payload".to_vec()).build().unwrap();
    let evs = c.send(publ.into());
    show("F6 too-large publish", &evs);
    println!("F6 id still in use: {}", c.register_packet_id(id).is_err());
}
#[test] fn f07_publish_pid0_autoresponse() {
    let r = catch_unwind(|| {
        let mut c = v5_client_connected(vec![], true, false);
        c.set_auto_pub_response(true);
        // PUBLISH qos1, topic "t", packet id 0, no props
        feed(&mut c, &[0x32, 0x06, 0x00, 0x01, b't', 0x00, 0x00, 0x00])
    });
    println!("F7 QoS1 PUBLISH pid=0 with auto response -> {}", if r.is_err() {"PANIC"} else {"ok"});
    let r = mqtt::packet::v5_0::Publish::parse(0x02, std::sync::Arc::from(&[0x00u8, 0x01, b't', 0x00, 0x00, 0x00][..]));
    println!("F7 parse accepts pid 0: {}", r.is_ok());
}
#[test] fn f08_pubrel_offline() {
    let mut c = mqtt::Connection::<mqtt::role::Client>::new(mqtt::Version::V3_1_1);
    let _ = c.send(mqtt::packet::v3_1_1::Connect::builder().client_id("c").unwrap().clean_session(false).keep_alive(10).build().unwrap().into());
    let _ = feed(&mut c, &[0x20, 0x02, 0x00, 0x00]);
    let _ = c.notify_closed();
    let id = c.acquire_packet_id().unwrap();
    let evs = c.send(mqtt::packet::v3_1_1::Pubrel::builder().packet_id(id).build().unwrap().into());
    show("F8 PUBREL while disconnected (persistent)", &evs);
}
#[test] fn f09_second_connack() {
    let mut c = mqtt::Connection::<mqtt::role::Client>::new(mqtt::Version::V3_1_1);
    let _ = c.send(mqtt::packet::v3_1_1::Connect::builder().client_id("c").unwrap().clean_session(false).build().unwrap().into());
    let _ = feed(&mut c, &[0x20, 0x02, 0x01, 0x00]);
    let id = c.acquire_packet_id().unwrap();
    let publ = mqtt::packet::v3_1_1::Publish::builder().topic_name("t").unwrap().qos(mqtt::packet::Qos::AtLeastOnce).packet_id(id).payload(b"x".to_vec()).build().unwrap();
    let _ = c.send(publ.into());
    println!("F9 stored before: {}", c.get_stored_packets().len());
    let evs = feed(&mut c, &[0x20, 0x02, 0x00, 0x00]);
    show("F9 second CONNACK (session_present=0) while connected", &evs);
    println!("F9 stored after: {} ; id reusable: {}", c.get_stored_packets().len(), c.register_packet_id(id).is_ok());
}
#[test] fn f10_stored_resend_underflow() {
    let r = catch_unwind(AssertUnwindSafe(|| {
        let mut c = mqtt::Connection::<mqtt::role::Client>::new(mqtt::Version::V5_0);
        let conn = || mqtt::packet::v5_0::Connect::builder().client_id("c").unwrap().clean_start(false)
            .props(vec![mqtt::packet::SessionExpiryInterval::new(100).unwrap().into()]).build().unwrap();
        let _ = c.send(conn().into());
        let ca = |sp| mqtt::packet::v5_0::Connack::builder().session_present(sp).reason_code(mqtt::result_code::ConnectReasonCode::Success)
            .props(vec![mqtt::packet::ReceiveMaximum::new(2).unwrap().into()]).build().unwrap();
        let _ = feed(&mut c, &ca(false).to_continuous_buffer());
        let id = c.acquire_packet_id().unwrap();
        let publ = mqtt::packet::v5_0::Publish::builder().topic_name("t").unwrap().qos(mqtt::packet::Qos::AtLeastOnce).packet_id(id).payload(b"x".to_vec()).build().unwrap();
        let _ = c.send(publ.into());
        let _ = c.notify_closed();
        let _ = c.send(conn().into());
        let evs = feed(&mut c, &ca(true).to_continuous_buffer());
        println!("F10 resent after CONNACK: {}", evs.iter().filter(|e| matches!(e, Ev::RequestSendPacket{..})).count());
        println!("F10 vacancy after resend (M=2): {:?}", c.get_receive_maximum_vacancy_for_send());
        let pa = mqtt::packet::v5_0::Puback::builder().packet_id(id).build().unwrap();
        let evs = feed(&mut c, &pa.to_continuous_buffer());
        show("F10 PUBACK for resent", &evs);
        println!("F10 vacancy after ack: {:?}", c.get_receive_maximum_vacancy_for_send());
    }));
    println!("F10 -> {}", if r.is_err() {"PANIC"} else {"ok"});
}
#[test] fn f15_publish_between_connections() {
    let mut c = mqtt::Connection::<mqtt::role::Client>::new(mqtt::Version::V3_1_1);
    let _ = c.send(mqtt::packet::v3_1_1::Connect::builder().client_id("c").unwrap().clean_session(false).build().unwrap().into());
    let _ = feed(&mut c, &[0x20, 0x02, 0x00, 0x00]);
    let _ = c.notify_closed();
    let id = c.acquire_packet_id().unwrap();
    let publ = mqtt::packet::v3_1_1::Publish::builder().topic_name("t").unwrap().qos(mqtt::packet::Qos::AtLeastOnce).packet_id(id).payload(b"x".to_vec()).build().unwrap();
    let evs = c.send(publ.into());
    show("F15 QoS1 publish between connections (persistent, no offline)", &evs);
    println!("F15 stored: {}", c.get_stored_packets().len());
}
#[test] fn f17_subscribe_two_subids() {
    let e = mqtt::packet::SubEntry::new("t", mqtt::packet::SubOpts::default()).unwrap();
    let r = mqtt::packet::v5_0::Subscribe::builder().packet_id(1u16).entries(vec![e])
        .props(vec![mqtt::packet::SubscriptionIdentifier::new(1).unwrap().into(), mqtt::packet::SubscriptionIdentifier::new(2).unwrap().into()]).build();
    println!("F17 SUBSCRIBE with two Subscription Identifiers accepted: {}", r.is_ok());
}
#[test] fn f18_pubrec_0x10() {
    let mut c = v5_client_connected(vec![], true, false);
    let id = c.acquire_packet_id().unwrap();
    let publ = mqtt::packet::v5_0::Publish::builder().topic_name("t").unwrap().qos(mqtt::packet::Qos::ExactlyOnce).packet_id(id).payload(b"x".to_vec()).build().unwrap();
    let _ = c.send(publ.into());
    let pr = mqtt::packet::v5_0::Pubrec::builder().packet_id(id).reason_code(mqtt::result_code::PubrecReasonCode::NoMatchingSubscribers).build().unwrap();
    let evs = feed(&mut c, &pr.to_continuous_buffer());
    show("F18 PUBREC 0x10", &evs);
}
#[test] fn f14_timeout_tiny_mps() {
    let mut c = v5_client_connected(vec![mqtt::packet::MaximumPacketSize::new(2).unwrap().into()], true, false);
    let evs = c.notify_timer_fired(mqtt::connection::TimerKind::PingrespRecv);
    show("F14 PingrespRecv fired with peer MaximumPacketSize=2", &evs);
}
