use mqtt_protocol_core::mqtt;
use mqtt_protocol_core::mqtt::packet::GenericPacketTrait;

// CONNACK v5.0 body: session_present=0, reason=0, property length 0 written non-minimally as 0x80 0x00
#[test]
fn connack_nonminimal_property_length() {
    let body = [0x00u8, 0x00, 0x80, 0x00];
    match mqtt::packet::v5_0::Connack::parse(&body) {
        Ok((p, consumed)) => {
            let bytes = p.to_continuous_buffer();
            println!("accepted: consumed={} size()={} serialised len={} bytes={:02x?}", consumed, p.size(), bytes.len(), bytes);
            assert_eq!(p.size(), bytes.len(), "size() must equal the serialised length of an accepted packet");
        }
        Err(e) => println!("rejected: {:?}", e),
    }
}

#[test]
fn suback_nonminimal_property_length() {
    // packet id 1, property length 0 as 0x80 0x00, one reason code 0
    let body = [0x00u8, 0x01, 0x80, 0x00, 0x00];
    match mqtt::packet::v5_0::Suback::parse(&body) {
        Ok((p, consumed)) => {
            let bytes = p.to_continuous_buffer();
            println!("accepted: consumed={} size()={} serialised len={} bytes={:02x?}", consumed, p.size(), bytes.len(), bytes);
            assert_eq!(p.size(), bytes.len());
        }
        Err(e) => println!("rejected: {:?}", e),
    }
}

#[test]
fn puback_nonminimal_property_length() {
    let body = [0x00u8, 0x01, 0x00, 0x80, 0x00];
    match mqtt::packet::v5_0::Puback::parse(&body) {
        Ok((p, consumed)) => {
            let bytes = p.to_continuous_buffer();
            println!("accepted: consumed={} size()={} serialised len={} bytes={:02x?}", consumed, p.size(), bytes.len(), bytes);
            assert_eq!(p.size(), bytes.len());
        }
        Err(e) => println!("rejected: {:?}", e),
    }
}
