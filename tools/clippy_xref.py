#!/usr/bin/env python3
"""Cross-reference (not a verdict): clippy's restriction lints indexing_slicing / unwrap_used / expect_used /
arithmetic_side_effects enumerate potential panic sites syntactically; the panic-site ledger of C04/C05 enumerates them
from MIR on abstract paths.  Every clippy site inside a function the ledger analysed should be matched by a ledger
obligation (discharged or audited) on the same source line; unmatched sites are code the abstract paths never reached
(loop bound, cut paths) or sites MIR does not assert (wrapping ops).  Prints the unmatched sites."""
import collections
import json
import os
import subprocess
import sys

HERE = os.path.dirname(os.path.dirname(os.path.abspath(__file__)))
sys.path.insert(0, os.path.join(HERE, "engine", "sa"))
sys.path.insert(0, os.path.join(HERE, "engine", "sa", "rules"))
import facts   # noqa
import panics  # noqa
import report  # noqa


def clippy_sites():
    env = dict(os.environ, CARGO_NET_OFFLINE="true", CARGO_TARGET_DIR=os.path.join(HERE, ".cache", "clippy_target"))
    r = subprocess.run(["cargo", "+nightly", "clippy", "--offline", "--lib", "--message-format=json", "--", "-A", "clippy::all",
                        "-W", "clippy::indexing_slicing", "-W", "clippy::unwrap_used", "-W", "clippy::expect_used", "-W", "clippy::arithmetic_side_effects"],
                       cwd=facts.REPO, env=env, stdout=subprocess.PIPE, stderr=subprocess.DEVNULL, text=True)
    sites = set()
    for ln in r.stdout.splitlines():
        try:
            d = json.loads(ln)
        except Exception:
            continue
        if d.get("reason") != "compiler-message":
            continue
        m = d["message"]
        code = (m.get("code") or {}).get("code") or ""
        if not code.startswith("clippy::"):
            continue
        for sp in m["spans"]:
            if sp.get("is_primary"):
                sites.add((code.split("::")[1], sp["file_name"], sp["line_start"]))
    return sites


def main():
    F = facts.load("default")
    seen_lines = collections.defaultdict(set)     # file -> lines with an obligation
    scope = set()                                 # functions with at least one obligation or analysed as a root
    orig = panics.collect

    def wrapped(F_, fn_path, *a, **k):
        obs, st = orig(F_, fn_path, *a, **k)
        scope.add(fn_path)
        for o in obs:
            g = F_.fns.get(o.site[0])
            if g is not None and o.site[1]:
                seen_lines[g["file"]].add(o.site[1])
                scope.add(o.site[0] if g.get("kind") != "Closure" else g.get("parent", o.site[0]))
        return obs, st
    panics.collect = wrapped
    report.EVID = "/tmp/xref_evid"
    import importlib
    for mod in ("c04", "c05"):
        M = importlib.import_module(mod)
        M.check(report.Run(mod.upper(), "quick"), F, "quick")
    ranges = collections.defaultdict(list)
    for fn in scope:
        g = F.fns.get(fn)
        if g is not None and g.get("end_line"):
            ranges[g["file"]].append((g["line"], g["end_line"], fn))
    sites = clippy_sites()
    inscope = matched = 0
    unmatched = []
    for code, file, line in sorted(sites):
        fns = [fn for (a, b, fn) in ranges.get(file, []) if a <= line <= b]
        if not fns:
            continue
        inscope += 1
        if line in seen_lines.get(file, ()):
            matched += 1
        else:
            unmatched.append((code, file, line, fns[0].split("::")[-1]))
    print("clippy sites: %d total, %d inside %d analysed functions, %d matched by a ledger obligation on the same line, %d unmatched"
          % (len(sites), inscope, len(scope), matched, len(unmatched)))
    by = collections.Counter(u[0] for u in unmatched)
    print("unmatched by lint:", dict(by))
    for u in unmatched[:int(os.environ.get("SHOW", "60"))]:
        print("  %-26s %s:%d (%s)" % u)


if __name__ == "__main__":
    main()
