#!/usr/bin/env python3
"""Generate /verif/MANIFEST.json from the claim table below (kept next to the rules so it stays current)."""
import json
import os

HERE = os.path.dirname(os.path.dirname(os.path.abspath(__file__)))

TB = "Trusted: rustc nightly front end and MIR construction; the fact driver's serialisation; the python analyses (engine/sa); spec/*.json oracle tables; container contracts listed in DESIGN.md appendix C. "

CLAIMS = {
    "C19": dict(
        text="Static: abstract event words of every public method and handler (path-sensitive abstract interpretation of MIR over all CFG paths) are checked for Close-before-Send, for Close accompanying every DISCONNECT / failing CONNACK, and for keep-alive expiry reaching Close; covers every history because each returned list is produced by one call. Whole statement.",
        note=TB + "Loops unrolled once, closures run 0..1 times (sound for pairwise order because loop bodies push at most one kind). Known finding F14 listed in known_findings.jsonl.",
        technique="MIR abstract interpretation: event-word extraction + order/accompaniment rules",
        ref="3/C19"),
}

CLAIMS.update({
    "C11": dict(
        text="Static, exact: the full role x variant table of send(), the compile-time Sendable impl matrix (from the compiler's impl tables), the blanket dispatch_send evaluated once per packet type with its type parameter bound, and the per-handler status x need_store x offline_publish x QoS state table are extracted from MIR and compared cell by cell with the MQTT role/state tables; refusal paths' write sets are checked to be empty up to id release / undo. Whole statement, exhaustive over the finite matrix. In the v5.0 handshake handlers the persistence input of that table (need_store) is raised only where clean-start is clear or a Session Expiry Interval is decided non-zero.",
        note=TB + "Role atoms are TypeId comparisons / RoleType consts evaluated by the compiler.",
        technique="MIR abstract interpretation: exact decision-table extraction vs transcribed MQTT tables; trait impl table comparison",
        ref="3/C11"),
    "C17": dict(
        text="Static, exact: the 144-cell role x version x packet-type receive table (gate + dispatch) is extracted from process_recv_packet and compared with the MQTT table; CONNECT/CONNACK handlers are explored with status=Connected at entry (protocol error, no session-field write); version adoption is shown to assign protocol_version and enter the fixed-version handler with no other write, and protocol_version has no other writer (field-equality argument). Whole statement. The adoption assignment is the only write of protocol_version on any path of the dispatcher (latched).",
        note=TB + "Behavioural equality after adoption rests on the field-equality argument (behaviour is a function of fields + inputs).",
        technique="MIR abstract interpretation: exact table extraction + who-may-write scan",
        ref="3/C17"),
    "C15": dict(
        text="Static: armed-flag <=> event-stream invariant on every path of every handler/public method; all flags false after close/DISCONNECT/refusing CONNACK; no send-side arming while possibly Disconnected; exact decision tables for interval priority and expiry effects; server refresh before every delivery. Per-step obligations of the statement; history-level 're-arms after every packet' is reduced to these.",
        note=TB + "Flag fields are discovered (field assigned true on every Reset(K) path), not named.",
        technique="MIR abstract interpretation: inductive flag invariant + exit valuations + decision tables",
        ref="3/C15"),
})

CLAIMS.update({
    "C10": dict(
        text="Static, sufficient condition for the whole statement: behaviour of a connection is a function of its 35 fields and inputs; every non-configuration field is proved (abstract post-values on all paths of notify_closed, the connect prefix and every new-session path; in-crate clear/reset methods proved field-wise equal to new()) to hold its initial or an input-derived value, so a reused object is field-wise equal to a fresh one.",
        note=TB + "Residual trust: the field scope table spec/field_scope.json (which fields are configuration); HashSet/IndexMap iteration order (release order within one call) is outside the abstraction.",
        technique="reset-equivalence: abstract post-state vs constructor state on all MIR paths + who-may-write scan",
        ref="3/C10"),
})

CLAIMS.update({
    "C08": dict(
        text="Static: on every abstract path of every handler/public method the release idiom (is_used_id guard on an unchanged manager -> release_id -> NotifyPacketIdReleased of the same id; no announcement without release) holds; matched acknowledgements, refusals and close release through it; the id-management API is shown panic-free for every id value by path-sensitive exploration with the manager and allocator inlined; only GenericConnection calls the manager. Not decided: the allocator's set semantics (uniqueness / all ids usable) - that is C20.",
        note=TB + "Per-step obligations of the conservation invariant; whole-history conservation follows only together with the allocator semantics, which is not decided.",
        technique="MIR abstract interpretation: pairing/guard idiom on all paths + panic reachability with inlined allocator",
        ref="3/C08"),
})

CLAIMS.update({
    "C06": dict(
        text="Static, per-step obligations on all abstract paths: accepted => sent or stored; stored copy is the caller's packet with DUP set and alias stripped; erase/release only on the matching acknowledgement of the handler's own kind/version, a non-matching one writes nothing and is a ProtocolError; resume calls send_stored right after the CONNACK / clears the store when the session is not present; PUBREL stored and awaited; CONNACK on an established connection touches nothing. Not decided: that the store content over a whole history equals the set of unacknowledged messages (needs the history invariant).",
        note=TB + "Known finding F15 (publish silently dropped in two offline configurations) listed in known_findings.jsonl. IndexMap insertion order is trusted for 'in store order'.",
        technique="MIR abstract interpretation: must-pass-through / pairing rules on every path",
        ref="3/C06"),
    "C07": dict(
        text="Static, per-step obligations: QoS 2 PUBLISH notified only when first seen (handled-set insert true), duplicates answered with PUBREC when connected; PUBREL and failing PUBREC release the mark; a first-seen message is notified or un-marked before return; new session (and the close of a session that is not stored) empties the set; helper-transitive who-may-write reference list. Not decided: exactly-once over arbitrary histories (these are the inductive steps).",
        note=TB + "Known finding F13 (mark left behind on the TopicAliasInvalid exits) listed in known_findings.jsonl.",
        technique="MIR abstract interpretation: guard-dominates-notification and pairing rules on every path",
        ref="3/C07"),
    "C12": dict(
        text="Static, inductive steps of the counter invariant on all paths: increment after the count==max test on every QoS>0 emission and stored re-emission, decrement exactly on exchange completion under the same guard and dominated by count>0 (no wrap/panic whatever the peer sends), refusal compares with the peer's value, vacancy is saturating, inbound len>=max test dominates insertion and delivery and answers with DISCONNECT 0x93. Not decided: numeric exactness of the count over whole histories.",
        note=TB + "Uses the frame rule (accessor(mutator(x)) = accessor(x) when read/write field sets are disjoint, computed from MIR).",
        technique="MIR abstract interpretation: counter discipline + guard dominance",
        ref="3/C12"),
})

CLAIMS.update({
    "C13": dict(
        text="Static, structural obligations on all paths: a caller-supplied empty topic is emitted only after a successful send-table lookup; recording a binding is always followed by the emission that carries the topic (no refusal reachable after insert_or_update); automatic substitution uses find_by_topic on the connection's table and only when Connected, an automatically chosen binding is recorded only on emitting paths; receive side looks up or reports TopicAliasInvalid and never delivers on that exit, range check dominates registration, a topic carried with an alias is bound whether or not the packet is delivered; tables are created only in the handshake handlers from a non-zero Topic Alias Maximum. Not decided: LRU order correctness and agreement with an independent receiver model over sequences. The send table's two indexes are updated together, a rebound alias is removed from the old topic's list, and no search in the alias tables assumes an order its writers do not maintain; every accepted receive path goes through the alias step.",
        note=TB,
        technique="MIR abstract interpretation: must-precede / no-refusal-after-binding rules",
        ref="3/C13"),
    "C14": dict(
        text="Static: every v5 emission lies on a path where the size of the very packet value emitted was tested against the peer's limit (value identity makes any growth after the check visible); send_stored filters and releases; only handshake handlers/close write the limits; the receive gate dominates dispatch and answers oversize with DISCONNECT 0x95; the VBI width table is exact. Not decided: that size() equals the encoded size (C02).",
        note=TB + "Known finding F12 (automatic alias mapping rewrites the packet after the check) listed in known_findings.jsonl.",
        technique="MIR abstract interpretation: validate-before-emit with value identity",
        ref="3/C14"),
})

CLAIMS.update({
    "C16": dict(
        text="Static, narrow structural claim: export accessors are unfiltered copies; restore_packets performs, per stored-packet variant, the same bookkeeping an accepted send performs (id registered, awaiting set equal to the one the send handler uses for that kind/QoS, added to the store, QoS 0 skipped, failed registration not stored); restored exchanges are counted when re-sent; the connect / resume path (initialize, CONNECT handlers without clean start, close of a stored session) leaves the restored store, handled-id set and awaited-acknowledgement sets untouched; the store keeps acceptance order (no order-disturbing map operation), so export and retransmission are in the original order. Not decided: equivalence with the uncrashed run at every crash point.",
        note=TB,
        technique="MIR abstract interpretation: sibling-agreement between restore path and send path",
        ref="3/C16"),
    "C18": dict(
        text="Static, exact: each of the 14 property validators is evaluated exactly on concrete lists [v], [v, v], [v, UserProperty], [UserProperty, v] (and companions) of the 27 kinds - iteration followed element by element whatever the idiom (loops, all / any / filter().count() / try_for_each), giving the full placement and multiplicity table, compared cell by cell with MQTT 5.0 Table 2-4; forbidden values by evaluating every numeric property's new() on concrete values and parse() on the concrete encodings of the same values (decision atoms of the paths as fallback); validators are discovered by signature and followed through helpers / function pointers, and on explored paths of both builder and parser the validator is applied and its verdict honoured. Whole statement.",
        note=TB + "14 property-carrying locations exist in the code (CONNECT, will, CONNACK, PUBLISH, PUBACK, PUBREC, PUBREL, PUBCOMP, SUBSCRIBE, SUBACK, UNSUBSCRIBE, UNSUBACK, DISCONNECT, AUTH): 27 x 14 cells.",
        technique="exact decision-table extraction from MIR vs transcribed specification table",
        ref="3/C18"),
})

CLAIMS.update({
    "C01": dict(
        text="Static, narrow: three structural clauses of pairwise interoperation - the automatic-response graph is acyclic per version and error replies go only to terminal packets (sufficient for 'no endless response loop'); what one role may send the peer role can receive and vice versa (both gating tables extracted exactly from MIR; necessary for 'neither side reports a protocol error about the other'); both PUBREC handlers agree, over all 9 reason codes, on which codes end the QoS 2 exchange. NOT decided: delivery exactly/at-least/at-most once, quiescence, behaviour across transport loss.",
        note=TB + "The behavioural statement over all schedules and loss points is outside this family; level_claimed is restricted to the named clauses.",
        technique="MIR abstract interpretation: call-graph acyclicity + table duality + sibling agreement",
        ref="3/C01"),
    "C02": dict(
        text="Static, narrow: sibling agreement of the serialisers - for each of the 70 types with both serialisers the guarded sequence of appended sources of to_continuous_buffer and to_buffers is identical for every guard valuation (necessary and sufficient for contiguous == vectored bytes); size() wiring and enum dispatch forwarding; length accounting of all 29 builders: on every accepting path of build() the Remaining Length formula (and each property-length field) equals, as a linear form over position-free size atoms, the sum of the sources the packet's own serialiser emits when applied to the value that path built (every optional-field combination the builder accepts; found and fixed F21). NOT decided: parse(encode(x)) == x, the leaf encoders (x.size() == bytes of x).",
        note=TB + "Value-level round trip is outside this family; the length accounting decides the formula, not the leaf encoders.",
        technique="MIR abstract interpretation: sibling implementations compared per guard valuation; abstract composition serialiser(build-result) with linear entailment",
        ref="3/C02"),
    "C03": dict(
        text="Static, tables only (exact): every wire constant (packet types, fixed headers incl. reserved flag nibbles, 27 property ids, QoS/retain/payload-format, protocol levels, all reason-code enums both directions with names, MqttError wire range, MqttError->DisconnectReasonCode, success/failure partitions), property data types and Property::parse dispatch, the fixed header stored by each build/parse, PUBLISH flag masks (accessors by mask/shift; every method that assigns the header evaluated on all sixteen PUBLISH header bytes x argument values), per-kind field order by type, and absence of non-big-endian conversions are compared with the transcribed OASIS tables. NOT decided: per-value encodings. Every builder setter of a defaulted flags byte starts from build()'s default (evaluated on an untouched builder and on one holding the default).",
        note=TB + "Known finding F20 (v3.1.1 PUBACK/PUBREC/PUBREL/PUBCOMP carry an optional reason-code byte the 3.1.1 specification does not define) listed in known_findings.jsonl.",
        technique="exact table extraction (evaluated discriminants, field types, MIR match tables, serialiser order) vs specification tables",
        ref="3/C03"),
    "C09": dict(
        text="Static, narrow: recv() feeds once, never moves the cursor itself, and handles every build result; feed resets (reset proved equal to new()) on every Complete/Error return; every byte read is appended / written in place with offset and remaining length advanced; the remaining-length state machine is explored exactly over its multiplier domain (at most four bytes, no overflow, error + reset on the fifth). NOT decided: equality of event sequences over all chunkings.",
        note=TB,
        technique="MIR abstract interpretation + exact finite-domain exploration of the length decoder",
        ref="3/C09"),
})

CLAIMS.update({
    "C04": dict(
        text="Static: panic-site ledger over every decoder function (all parse/decode* under mqtt::packet and everything they reach, ~100 functions): each MIR assert, unwrap, slice/array/str index, copy_from_slice and precondition met on some abstract path is discharged mechanically - constants and path constraints, linear entailment over path facts with the slicing algebra and callee post-conditions, type intervals, A-RL/A-MEM - or is one of 16 audited ledger entries (eight of them representation invariants of MqttString / MqttBinary keyed by type and range shape, with who-may-construct / who-may-mutate checked: C04-R11); calls into std that panic on a violated precondition (split_at, Vec::remove, map indexing ...) are obligations too; every decoder is proved to report consumed <= len(input); loops classified as terminating; UTF-8 typestate; every id-carrying parser rejects id 0 and PUBLISH rejects QoS 3; every property list a v5.0 parser accepts was validated by the builder's validator and is the one stored; leaf decoders accept only canonical encodings (consumed == encoded size of the returned value: found and fixed F22, non-minimal variable byte integers); an accepted packet's Remaining Length / property lengths equal what its serialiser emits (under A-LEAF for the per-property loops). NOT decided: re-parse equality, trailing bytes.",
        note=TB + "Assumptions A-MEM (lengths < 2^56) and A-RL (inputs <= 268 435 455 bytes). Audited ledger entries are not re-proved when code near them changes; a new site or a lost mechanical discharge is reported.",
        technique="panic-site enumeration from MIR + linear-inequality / interval discharge (no solver) + audited ledger",
        ref="3/C04, 0.1"),
    "C05": dict(
        text="Static: the same panic-site ledger over the connection layer - every receive handler with builders and helpers inlined, the dispatcher, recv(), the framer with the cursor inlined, and (separately) the local API: failing or open asserts / unwraps / explicit panics on feasible abstract paths are discharged (incl. D4: automatic-response builders can only fail on a zero id and every parser rejects zero; D3p: property values the constructors forbid) or are audited ledger entries with the invariant they rest on; loops terminate; no received packet is swallowed (known finding F19); notify_closed re-opens. NOT decided: logical wedges that are not panics or loops.",
        note=TB + "Assumptions A-MEM, A-RL, A-CALL (contract-respecting local calls). ~200 mechanical discharges, ~45 distinct audited sites (framer arithmetic, INV-PUB, INV-STORE, unreachable!()).",
        technique="panic-site enumeration on abstract paths + mechanical discharge + audited ledger; no-swallow path rule",
        ref="3/C05, 0.1"),
})

NOT_APPLICABLE = {
    "C20": "Refinement of a set model over all operation sequences plus the sorted/disjoint/merged representation invariant of a BTreeSet<ValueInterval> with a non-standard Ord: needs an inductive data-structure invariant no static abstract domain in reach expresses; a syntactic proxy would fire on behaviour-preserving rewrites. The out-of-range query clause is decided under C08-R5.",
}

PENDING_REASON = "rule module not built yet in this session (static rules designed in DESIGN.md section 3); not claimed until its check exists and is silent on the unchanged tree"


def main():
    props = [json.loads(l)["id"] for l in open(os.path.join(HERE, "properties.jsonl"))]
    checks = []
    na = []
    for pid in props:
        c = CLAIMS.get(pid)
        if c and os.path.exists(os.path.join(HERE, "engine", "sa", "rules", pid.lower() + ".py")):
            checks.append({
                "property_id": pid,
                "quick_cmd": "./check %s quick" % pid,
                "thorough_cmd": "./check %s thorough" % pid,
                "evidence_file": "/verif/evidence/%s.json" % pid,
                "replay_cmd_template": "./check --explain {path}",
                "engine": "mqtt-facts+sa",
                "level_claimed": {"category": c.get("category", "other"), "text": c["text"], "design_ref": "DESIGN.md section " + c["ref"]},
                "level_note": c["note"],
                "technique": "static analysis: " + c["technique"],
            })
        else:
            na.append({"property_id": pid, "reason": NOT_APPLICABLE.get(pid, PENDING_REASON)})
    m = {
        "version": 1,
        "setup_cmd": "./setup.sh",
        "hooks": {
            "guard": "mqtt_protocol_core_verif",
            "enable": "none needed: nothing is instrumented; checks analyse /repo's current tree as built by `cargo +nightly check --lib`",
            "baseline_off_cmd": "cd /repo && cargo test --workspace --no-fail-fast --offline",
            "source_commits": [],
            "add_only": True,
        },
        "engines": [
            {"name": "mqtt-facts", "path": "engine/driver", "serves_properties": [c["property_id"] for c in checks],
             "kind_free_text": "rustc_private driver (nightly) dumping ADTs, impls, evaluated consts and MIR with resolved callees as JSON facts"},
            {"name": "sa", "path": "engine/sa", "serves_properties": [c["property_id"] for c in checks],
             "kind_free_text": "python static analyses over the facts: path-sensitive finite-domain abstract interpretation (A3), event words (A4), mod/ref + reset-equivalence (A5), panic-site ledger (A6/A7), table extraction vs OASIS oracle tables"},
        ],
        "checks": checks,
        "not_applicable": na,
        "notes": "Technique family: static analysis only. Every check re-extracts facts from /repo's current working tree (content-hashed cache). See DESIGN.md.",
    }
    with open(os.path.join(HERE, "MANIFEST.json"), "w") as fh:
        json.dump(m, fh, indent=1)
    print("MANIFEST.json: %d checks, %d not_applicable" % (len(checks), len(na)))


if __name__ == "__main__":
    main()
