#!/bin/sh
# usage: tools/try_variant.sh <patch> [checks...]   -- apply a patch to the scratch worktree /tmp/sv (created from /repo HEAD on demand),
# (env: SV scratch worktree, TIER quick|thorough, SHOW lines, W width)
# run the given checks (default: all) against it with VERIF_REPO, print the alarms, revert.  /repo itself is never touched.
p=$(realpath "$1"); shift
HERE=$(dirname "$(dirname "$(realpath "$0")")")
SV=${SV:-/tmp/sv}
[ -d $SV ] || git -C /repo worktree add -q $SV HEAD
cd $SV && git checkout -q --detach $(git -C /repo rev-parse HEAD) && git checkout -- . && git clean -fdq src || exit 2
git apply "$p" || { echo "patch does not apply"; exit 2; }
cd "$HERE"
[ $# -eq 0 ] && set -- C01 C02 C03 C04 C05 C06 C07 C08 C09 C10 C11 C12 C13 C14 C15 C16 C17 C18 C19
fl=""
for c in "$@"; do
  VERIF_REPO=$SV VERIF_EVIDENCE_DIR=${SV}_evidence ./check $c ${TIER:-quick} > ${SV}_tv_out.txt 2>&1
  rc=$?
  if [ $rc -ne 0 ]; then fl="$fl $c"; echo "ALARM $c rc=$rc"; grep -E "^  rule|Error" ${SV}_tv_out.txt | head -${SHOW:-6} | cut -c1-${W:-400}; fi
done
cd $SV && git checkout -- . && git clean -fdq src
echo "FLAGGED:${fl:- (none)}"
