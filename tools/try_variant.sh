#!/bin/sh
# usage: tools/try_variant.sh <patch> [checks...]   -- apply a patch to the scratch worktree /tmp/sv (created from /repo HEAD on demand),
# run the given checks (default: all) against it with VERIF_REPO, print the alarms, revert.  /repo itself is never touched.
p=$(realpath "$1"); shift
[ -d /tmp/sv ] || git -C /repo worktree add -q /tmp/sv HEAD
cd /tmp/sv && git checkout -q --detach $(git -C /repo rev-parse HEAD) && git checkout -- . || exit 2
git apply "$p" || { echo "patch does not apply"; exit 2; }
cd /verif
[ $# -eq 0 ] && set -- C01 C02 C03 C04 C05 C06 C07 C08 C09 C10 C11 C12 C13 C14 C15 C16 C17 C18 C19
fl=""
for c in "$@"; do
  VERIF_REPO=/tmp/sv VERIF_EVIDENCE_DIR=/tmp/sv_evidence ./check $c quick > /tmp/tv_out.txt 2>&1
  rc=$?
  if [ $rc -ne 0 ]; then fl="$fl $c"; echo "ALARM $c rc=$rc"; grep -E "^  rule|Error" /tmp/tv_out.txt | head -${SHOW:-6} | cut -c1-${W:-400}; fi
done
cd /tmp/sv && git checkout -- .
echo "FLAGGED:${fl:- (none)}"
