#!/bin/sh
# Regression of the machinery itself, on a snapshot of /verif (so that the live tree can be edited meanwhile):
#   1. every seeded defect under /verif/seeded must still be flagged by its target property's check
#   2. every behaviour-preserving refactoring under /verif/refactors must be flagged by no check
#   3. every defect planted on a refactored tree (refactors/combos) must be flagged by the check named for it
# usage: tools/regress.sh [seeds|refactors|combos]
# Uses the scratch worktree /tmp/sv (never /repo itself).
SNAP=${SNAP:-/tmp/verif_snap}
rm -rf $SNAP; mkdir -p $SNAP
cd /verif && tar cf - --exclude=.cache --exclude=.git --exclude=evidence . | (cd $SNAP && tar xf -)
mkdir -p $SNAP/evidence
[ -d /tmp/sv ] || git -C /repo worktree add -q /tmp/sv HEAD
cd /tmp/sv && git checkout -q --detach $(git -C /repo rev-parse HEAD) && git checkout -- . && git clean -fdq src
ALL="C01 C02 C03 C04 C05 C06 C07 C08 C09 C10 C11 C12 C13 C14 C15 C16 C17 C18 C19"
if [ "$1" != "refactors" ] && [ "$1" != "combos" ]; then
for d in $SNAP/seeded/*/; do
  id=$(basename $d); prop=${id%%-*}
  cd /tmp/sv && git apply $d/patch.diff 2>/dev/null || { echo "SEED $id: patch does not apply"; continue; }
  cd $SNAP
  VERIF_REPO=/tmp/sv VERIF_EVIDENCE_DIR=/tmp/sv_evidence ./check $prop quick > /tmp/rg_out.txt 2>&1; rc=$?
  rules=$(grep -E "^  rule" /tmp/rg_out.txt | sed 's/^  rule \([^:]*\):.*/\1/' | sort -u | tr '\n' ' ')
  if [ $rc -ne 0 ]; then echo "SEED $id: detected by $prop [$rules]"; else
    # not flagged by the property it was written for: does any other check flag it?
    others=""
    for c in $ALL; do
      [ $c = $prop ] && continue
      VERIF_REPO=/tmp/sv VERIF_EVIDENCE_DIR=/tmp/sv_evidence ./check $c quick > /tmp/rg_out.txt 2>&1
      if [ $? -ne 0 ]; then
        rr=$(grep -E "^  rule" /tmp/rg_out.txt | sed 's/^  rule \([^:]*\):.*/\1/' | sort -u | tr '\n' ' ')
        others="$others $c($rr)"
      fi
    done
    if [ -n "$others" ]; then echo "SEED $id: not flagged by $prop; detected by$others"; else echo "SEED $id: MISSED by every check"; fi
  fi
  cd /tmp/sv && git checkout -- . && git clean -fdq src
done
fi
if [ "$1" != "seeds" ] && [ "$1" != "combos" ]; then
for p in $SNAP/refactors/*.patch; do
  [ -f $p ] || continue
  n=$(basename $p .patch)
  cd /tmp/sv && git apply $p 2>/dev/null || { echo "REFACTOR $n: patch does not apply"; continue; }
  cd $SNAP
  fl=""
  for c in $ALL; do
    VERIF_REPO=/tmp/sv VERIF_EVIDENCE_DIR=/tmp/sv_evidence ./check $c quick > /tmp/rg_out.txt 2>&1
    if [ $? -ne 0 ]; then fl="$fl $c"; grep -E "^  rule" /tmp/rg_out.txt | head -3 | cut -c1-300; fi
  done
  echo "REFACTOR $n: ${fl:-clean}"
  cd /tmp/sv && git checkout -- . && git clean -fdq src
done
fi
if [ "$1" != "seeds" ] && [ "$1" != "refactors" ] || [ "$1" = "combos" ]; then
# 3. a defect planted *on top of* a refactoring (refactors/combos): the check named in combos.json must still flag it -
#    the robustness gained on refactored code must not be blindness
python3 - "$SNAP" <<'PY'
import json, subprocess, sys, os
snap = sys.argv[1]
for c in json.load(open(os.path.join(snap, "refactors", "combos", "combos.json"))):
    p = os.path.join(snap, "refactors", "combos", c["patch"])
    subprocess.run("git checkout -- . && git clean -fdq src && git apply %s" % p, shell=True, cwd="/tmp/sv")
    r = subprocess.run("VERIF_REPO=/tmp/sv VERIF_EVIDENCE_DIR=/tmp/sv_evidence ./check %s quick" % c["expected_check"], shell=True, cwd=snap, text=True, capture_output=True)
    rules = sorted({l.split(":")[0].replace("  rule ", "") for l in r.stdout.splitlines() if l.startswith("  rule")})
    print("COMBO %s on %s: %s" % (c["id"], c["refactoring"], ("detected by %s %s" % (c["expected_check"], rules)) if r.returncode != 0 else "MISSED by %s" % c["expected_check"]))
subprocess.run("git checkout -- . && git clean -fdq src", shell=True, cwd="/tmp/sv")
PY
fi
echo DONE
