#!/bin/sh
# Regression of the machinery itself, on a snapshot of /verif (so that the live tree can be edited meanwhile):
#   1. every seeded defect under /verif/seeded must still be flagged by its target property's check
#   2. every behaviour-preserving refactoring under /verif/refactors must be flagged by no check
# Uses the scratch worktree /tmp/sv (never /repo itself).
SNAP=${SNAP:-/tmp/verif_snap}
rm -rf $SNAP; mkdir -p $SNAP
cd /verif && tar cf - --exclude=.cache --exclude=.git --exclude=evidence . | (cd $SNAP && tar xf -)
mkdir -p $SNAP/evidence
[ -d /tmp/sv ] || git -C /repo worktree add -q /tmp/sv HEAD
cd /tmp/sv && git checkout -q --detach $(git -C /repo rev-parse HEAD) && git checkout -- . && git clean -fdq src
ALL="C01 C02 C03 C04 C05 C06 C07 C08 C09 C10 C11 C12 C13 C14 C15 C16 C17 C18 C19"
if [ "$1" != "refactors" ]; then
for d in $SNAP/seeded/*/; do
  id=$(basename $d); prop=${id%%-*}
  cd /tmp/sv && git apply $d/patch.diff 2>/dev/null || { echo "SEED $id: patch does not apply"; continue; }
  cd $SNAP
  VERIF_REPO=/tmp/sv VERIF_EVIDENCE_DIR=/tmp/sv_evidence ./check $prop quick > /tmp/rg_out.txt 2>&1; rc=$?
  rules=$(grep -E "^  rule" /tmp/rg_out.txt | sed 's/^  rule \([^:]*\):.*/\1/' | sort -u | tr '\n' ' ')
  if [ $rc -ne 0 ]; then echo "SEED $id: detected by $prop [$rules]"; else
    # not flagged by the property it was written for: does any other check flag it?
    others=""
    for c in $ALL; do
      [ $c = $prop ] && continue
      VERIF_REPO=/tmp/sv VERIF_EVIDENCE_DIR=/tmp/sv_evidence ./check $c quick > /tmp/rg_out.txt 2>&1
      if [ $? -ne 0 ]; then
        rr=$(grep -E "^  rule" /tmp/rg_out.txt | sed 's/^  rule \([^:]*\):.*/\1/' | sort -u | tr '\n' ' ')
        others="$others $c($rr)"
      fi
    done
    if [ -n "$others" ]; then echo "SEED $id: not flagged by $prop; detected by$others"; else echo "SEED $id: MISSED by every check"; fi
  fi
  cd /tmp/sv && git checkout -- . && git clean -fdq src
done
fi
if [ "$1" != "seeds" ]; then
for p in $SNAP/refactors/*.patch; do
  [ -f $p ] || continue
  n=$(basename $p .patch)
  cd /tmp/sv && git apply $p 2>/dev/null || { echo "REFACTOR $n: patch does not apply"; continue; }
  cd $SNAP
  fl=""
  for c in $ALL; do
    VERIF_REPO=/tmp/sv VERIF_EVIDENCE_DIR=/tmp/sv_evidence ./check $c quick > /tmp/rg_out.txt 2>&1
    if [ $? -ne 0 ]; then fl="$fl $c"; grep -E "^  rule" /tmp/rg_out.txt | head -3 | cut -c1-300; fi
  done
  echo "REFACTOR $n: ${fl:-clean}"
  cd /tmp/sv && git checkout -- . && git clean -fdq src
done
fi
echo DONE
