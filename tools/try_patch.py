#!/usr/bin/env python3
"""Apply a patch to /repo's working tree, run the given checks (default: all claimed), always revert.

usage: tools/try_patch.py <patch.diff | --sub FILE 'old' 'new'> [C01 C02 ...]
Prints, per check, exit status and the VIOLATION rule lines. Never commits anything."""
import json
import os
import subprocess
import sys

HERE = os.path.dirname(os.path.dirname(os.path.abspath(__file__)))
REPO = "/repo"


def sh(cmd, **kw):
    return subprocess.run(cmd, shell=True, text=True, stdout=subprocess.PIPE, stderr=subprocess.STDOUT, **kw)


def main():
    a = sys.argv[1:]
    if sh("git -C %s status --porcelain --untracked-files=no" % REPO).stdout.strip():
        print("refusing: /repo has uncommitted changes")
        return 2
    try:
        if a[0] == "--sub":
            f, old, new = a[1], a[2], a[3]
            p = os.path.join(REPO, f)
            s = open(p).read()
            n = s.count(old)
            if n < 1:
                print("pattern not found in %s" % f)
                return 2
            cnt = int(os.environ.get("SUB_COUNT", "1"))
            open(p, "w").write(s.replace(old, new, cnt))
            checks = a[4:]
        else:
            r = sh("git -C %s apply %s" % (REPO, os.path.abspath(a[0])))
            if r.returncode != 0:
                print("patch does not apply:\n" + r.stdout)
                return 2
            checks = a[1:]
        if not checks:
            m = json.load(open(os.path.join(HERE, "MANIFEST.json")))
            checks = [c["property_id"] for c in m["checks"]]
        b = sh("cd %s && cargo check --offline --lib 2>&1 | tail -3" % REPO)
        if "error" in b.stdout:
            print("mutant does not compile:\n" + b.stdout)
            return 2
        flagged = []
        for c in checks:
            r = sh("cd %s && ./check %s quick" % (HERE, c))
            lines = [l for l in r.stdout.splitlines() if l.startswith("  rule") or l.startswith("VIOLATION")]
            rules = sorted({l.split(":")[0].replace("  rule ", "") for l in lines if l.startswith("  rule")})
            print("%s exit=%d %s" % (c, r.returncode, " ".join(rules)))
            for l in lines[:int(os.environ.get("SHOW", "4"))]:
                if l.startswith("  rule"):
                    print("     " + l[:260])
            if r.returncode != 0:
                flagged.append(c)
        print("FLAGGED:", " ".join(flagged) if flagged else "(none)")
        return 0
    finally:
        sh("git -C %s checkout -- ." % REPO)


if __name__ == "__main__":
    sys.exit(main())
