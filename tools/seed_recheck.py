#!/usr/bin/env python3
"""Re-run every claimed check against stored seeds and refresh `flagged_by` / `detected` in their meta.json (the suite / demo
confirmation recorded there is left as it is).  usage: tools/seed_recheck.py <seed id> [<seed id> ...]   (SV=<scratch worktree>)"""
import json
import os
import subprocess
import sys

HERE = os.path.dirname(os.path.dirname(os.path.abspath(__file__)))
SV = os.environ.get("SV", "/tmp/sv")


def sh(cmd, cwd=None):
    return subprocess.run(cmd, shell=True, text=True, stdout=subprocess.PIPE, stderr=subprocess.STDOUT, cwd=cwd)


def main():
    if not os.path.isdir(SV):
        sh("git -C /repo worktree add -q %s HEAD" % SV)
    m = json.load(open(os.path.join(HERE, "MANIFEST.json")))
    for sid in sys.argv[1:]:
        d = os.path.join(HERE, "seeded", sid)
        meta = json.load(open(os.path.join(d, "meta.json")))
        sh("git checkout -q --detach $(git -C /repo rev-parse HEAD) && git checkout -- .", cwd=SV)
        r = sh("git apply %s" % os.path.join(d, "patch.diff"), cwd=SV)
        if r.returncode != 0:
            print(sid, "patch does not apply")
            continue
        flagged = {}
        for c in m["checks"]:
            rr = sh("VERIF_REPO=%s VERIF_EVIDENCE_DIR=%s_evidence %s" % (SV, SV, c["quick_cmd"]), cwd=HERE)
            rules = sorted({l.split(":")[0].replace("  rule ", "") for l in rr.stdout.splitlines() if l.startswith("  rule")})
            if rr.returncode != 0:
                flagged[c["property_id"]] = {"rules": rules, "first": [l.strip()[:300] for l in rr.stdout.splitlines() if l.startswith("  rule")][:3]}
        sh("git checkout -- .", cwd=SV)
        if any("FAIL-CLOSED" in v["rules"] for v in flagged.values()):
            print(sid, "machinery failure (FAIL-CLOSED): meta left unchanged")
            continue
        meta["flagged_by"] = flagged
        meta["detected"] = bool(flagged)
        meta["detected_by_target_property"] = meta["property"] in flagged
        json.dump(meta, open(os.path.join(d, "meta.json"), "w"), indent=1)
        print(sid, {k: v["rules"] for k, v in flagged.items()})


if __name__ == "__main__":
    sys.exit(main())
