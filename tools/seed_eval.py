#!/usr/bin/env python3
"""Confirm a seeded defect and run the checks against it.

usage: tools/seed_eval.py <seed_out dir> <a|b> <PROP> [--keep-as ID]
 1. in a scratch worktree (/tmp/sv, created on demand from /repo HEAD): existing suite with the patch (must pass),
    demonstration without the patch (must pass) and with it (must fail);
 2. patch applied to /repo's working tree, every claimed check's quick command run, patch reverted;
 3. result stored under /verif/seeded/<ID>/ (patch.diff, demo.rs, meta.json).
"""
import json
import os
import re
import shutil
import subprocess
import sys

HERE = os.path.dirname(os.path.dirname(os.path.abspath(__file__)))
SV = os.environ.get("SV", "/tmp/sv")


def sh(cmd, cwd=None, timeout=3000):
    return subprocess.run(cmd, shell=True, text=True, stdout=subprocess.PIPE, stderr=subprocess.STDOUT, cwd=cwd, timeout=timeout)


def suite(cwd, extra=""):
    r = sh("cargo test --workspace --no-fail-fast --offline %s 2>&1" % extra, cwd=cwd)
    p = f = 0
    for ln in r.stdout.splitlines():
        m = re.match(r"^test result: \w+\. (\d+) passed; (\d+) failed", ln)
        if m:
            p += int(m.group(1))
            f += int(m.group(2))
    comp = "error: could not compile" in r.stdout or "error[E" in r.stdout
    return p, f, comp, r.stdout


def main():
    d, which, prop = sys.argv[1], sys.argv[2], sys.argv[3]
    sid = "%s-%s" % (prop, which)
    if "--keep-as" in sys.argv:
        sid = sys.argv[sys.argv.index("--keep-as") + 1]
    patch = os.path.join(d, which + ".patch")
    demo = os.path.join(d, which + "_demo.rs")
    note = os.path.join(d, which + ".md")
    if not os.path.isdir(SV):
        r = sh("git -C /repo worktree add -q %s HEAD" % SV)
        if r.returncode != 0:
            print(r.stdout)
            return 2
    sh("git checkout -q --detach $(git -C /repo rev-parse HEAD) && git checkout -- . && git clean -fdq -e target", cwd=SV)
    meta = {"id": sid, "property": prop, "source": "independent sub-agent, given only the property text and a scratch worktree"}
    # existing suite with the patch
    r = sh("git apply %s" % os.path.abspath(patch), cwd=SV)
    if r.returncode != 0:
        print("patch does not apply: " + r.stdout)
        return 2
    p, f, comp, out = suite(SV)
    meta["suite_with_patch"] = {"passed": p, "failed": f, "compile_error": comp}
    print("suite with patch: passed=%d failed=%d compile_error=%s" % (p, f, comp))
    # demo with patch
    shutil.copy(demo, os.path.join(SV, "tests", "seed_demo.rs"))
    p2, f2, comp2, out2 = suite(SV, "--test seed_demo")
    meta["demo_with_patch"] = {"passed": p2, "failed": f2, "compile_error": comp2}
    print("demo with patch: passed=%d failed=%d" % (p2, f2))
    sh("git apply -R %s" % os.path.abspath(patch), cwd=SV)
    p3, f3, comp3, out3 = suite(SV, "--test seed_demo")
    meta["demo_without_patch"] = {"passed": p3, "failed": f3, "compile_error": comp3}
    print("demo without patch: passed=%d failed=%d" % (p3, f3))
    os.unlink(os.path.join(SV, "tests", "seed_demo.rs"))
    confirmed = (f == 0 and not comp and p >= 1479 and f2 > 0 and f3 == 0 and p3 > 0 and not comp2 and not comp3)
    meta["confirmed"] = confirmed
    # checks against the patched tree (scratch worktree, selected with VERIF_REPO so that /repo stays untouched;
    # equivalent to `git -C /repo apply patch.diff; <quick_cmd>; git -C /repo checkout -- .`)
    flagged = {}
    try:
        r = sh("git apply %s" % os.path.abspath(patch), cwd=SV)
        if r.returncode != 0:
            print("patch does not apply: " + r.stdout)
            return 2
        m = json.load(open(os.path.join(HERE, "MANIFEST.json")))
        for c in m["checks"]:
            pid = c["property_id"]
            rr = sh("VERIF_REPO=%s VERIF_EVIDENCE_DIR=%s_evidence %s" % (SV, SV, c["quick_cmd"]), cwd=HERE)
            rules = sorted({l.split(":")[0].replace("  rule ", "") for l in rr.stdout.splitlines() if l.startswith("  rule")})
            if rr.returncode != 0:
                flagged[pid] = {"rules": rules, "first": [l.strip()[:300] for l in rr.stdout.splitlines() if l.startswith("  rule")][:3]}
    finally:
        sh("git checkout -- .", cwd=SV)
    meta["flagged_by"] = flagged
    meta["detected"] = bool(flagged)
    meta["detected_by_target_property"] = prop in flagged
    print("flagged by:", {k: v["rules"] for k, v in flagged.items()})
    out_dir = os.path.join(HERE, "seeded", sid)
    os.makedirs(out_dir, exist_ok=True)
    shutil.copy(patch, os.path.join(out_dir, "patch.diff"))
    shutil.copy(demo, os.path.join(out_dir, "demo.rs"))
    if os.path.exists(note):
        meta["needs_to_manifest"] = open(note).read()[:3000]
    meta["ran"] = ["cargo test --workspace --no-fail-fast --offline (scratch worktree, patch applied)",
                   "cargo test --offline --test seed_demo (with and without the patch)",
                   "git -C /repo apply patch.diff; every MANIFEST quick_cmd; git -C /repo checkout -- ."]
    json.dump(meta, open(os.path.join(out_dir, "meta.json"), "w"), indent=1)
    print("confirmed=%s detected=%s -> %s" % (confirmed, bool(flagged), out_dir))
    return 0


if __name__ == "__main__":
    sys.exit(main())
