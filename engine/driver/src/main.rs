// mqtt-facts: rustc_private fact extractor (no rule logic).
//
// Injected through RUSTC_WORKSPACE_WRAPPER under `cargo +nightly check`; for the
// crate named by MQTT_FACTS_CRATE (default mqtt_protocol_core) it serialises, after
// analysis, ADTs (with evaluated discriminants), impls (with evaluated associated
// consts) and the MIR (`mir_built`) of every body with resolved callees and field
// names, as one JSON object written to $MQTT_FACTS_OUT in a single write.
#![feature(rustc_private)]
#![allow(clippy::all)]

extern crate rustc_abi;
extern crate rustc_driver;
extern crate rustc_hir;
extern crate rustc_interface;
extern crate rustc_middle;
extern crate rustc_span;

use rustc_hir::def::DefKind;
use rustc_hir::def_id::{DefId, LocalDefId};
use rustc_middle::mir::{
    self, AggregateKind, BasicBlock, Body, Operand, Place, PlaceElem, Rvalue, StatementKind,
    TerminatorKind,
};
use rustc_middle::ty::print::with_no_trimmed_paths;
use rustc_middle::ty::print::PrintTraitRefExt;
use rustc_middle::ty::{self, Instance, Ty, TyCtxt, TypeVisitableExt, TypingEnv};
use rustc_span::Span;
use std::fmt::Write as _;

mod json;
use json::J;

struct Cb;

impl rustc_driver::Callbacks for Cb {
    fn after_expansion<'tcx>(
        &mut self,
        _c: &rustc_interface::interface::Compiler,
        tcx: TyCtxt<'tcx>,
    ) -> rustc_driver::Compilation {
        let want = std::env::var("MQTT_FACTS_CRATE").unwrap_or_else(|_| "mqtt_protocol_core".into());
        let name = tcx.crate_name(rustc_hir::def_id::LOCAL_CRATE).to_string();
        if name == want {
            if let Ok(out) = std::env::var("MQTT_FACTS_OUT") {
                let s = with_no_trimmed_paths!(dump(tcx, &name));
                std::fs::write(&out, s).expect("write facts");
            }
        }
        rustc_driver::Compilation::Continue
    }
}

fn main() {
    let args: Vec<String> = std::env::args().collect();
    // RUSTC_WORKSPACE_WRAPPER: argv = [wrapper, rustc, args...]
    let rest: Vec<String> = args[1..].to_vec();
    rustc_driver::run_compiler(&rest, &mut Cb);
}

fn ty_s<'tcx>(t: Ty<'tcx>) -> String {
    format!("{}", t)
}

fn loc<'tcx>(tcx: TyCtxt<'tcx>, sp: Span) -> (String, usize, Vec<String>) {
    let mut macs = Vec::new();
    if sp.from_expansion() {
        for e in sp.macro_backtrace() {
            macs.push(format!("{}", e.kind.descr()));
        }
    }
    let cs = sp.source_callsite();
    let sm = tcx.sess.source_map();
    let p = sm.lookup_char_pos(cs.lo());
    let f = format!("{}", p.file.name.prefer_local_unconditionally());
    (f, p.line, macs)
}

fn dump<'tcx>(tcx: TyCtxt<'tcx>, name: &str) -> String {
    let mut root = J::obj();
    root.set("nonce", J::s(&std::env::var("MQTT_FACTS_NONCE").unwrap_or_default()));
    root.set("crate", J::s(name));
    root.set("mir_phase", J::s(&std::env::var("MQTT_FACTS_PHASE").unwrap_or_else(|_| "built".into())));
    root.set("overflow_checks", J::b(tcx.sess.overflow_checks()));
    root.set("debug_assertions", J::b(tcx.sess.opts.debug_assertions));

    let mut adts = Vec::new();
    let mut impls = Vec::new();
    let mut traits = Vec::new();
    for id in tcx.hir_crate_items(()).definitions() {
        match tcx.def_kind(id) {
            DefKind::Struct | DefKind::Enum | DefKind::Union => adts.push(dump_adt(tcx, id)),
            DefKind::Impl { .. } => impls.push(dump_impl(tcx, id)),
            DefKind::Trait => traits.push(dump_trait(tcx, id)),
            _ => {}
        }
    }
    root.set("adts", J::Arr(adts));
    root.set("impls", J::Arr(impls));
    root.set("traits", J::Arr(traits));

    let mut fns = Vec::new();
    let mut stolen = 0usize;
    for def in tcx.hir_body_owners() {
        let k = tcx.def_kind(def);
        match k {
            DefKind::Fn | DefKind::AssocFn | DefKind::Closure => {}
            // named constants: their initialiser is a body too (evaluated by the analyses where a function uses the constant)
            DefKind::Const { .. } | DefKind::AssocConst { .. } => {
                // `const _: () = ..` items (derive / static assertions) have no name to refer to
                if tcx.opt_item_name(def.to_def_id()).map_or(true, |n| n.as_str() == "_") {
                    continue;
                }
            }
            _ => continue,
        }
        if let Some(f) = dump_fn(tcx, def, &mut stolen) {
            fns.push(f);
        }
    }
    root.set("stolen", J::n(stolen as i128));
    root.set("fns", J::Arr(fns));
    let mut s = String::new();
    root.write(&mut s);
    s
}

fn dump_adt<'tcx>(tcx: TyCtxt<'tcx>, id: LocalDefId) -> J {
    let did = id.to_def_id();
    let adt = tcx.adt_def(did);
    let mut o = J::obj();
    o.set("path", J::s(&tcx.def_path_str(did)));
    o.set(
        "kind",
        J::s(if adt.is_enum() {
            "enum"
        } else if adt.is_union() {
            "union"
        } else {
            "struct"
        }),
    );
    let r = adt.repr();
    o.set("repr", match r.int {
        Some(i) => J::s(&format!("{:?}", i)),
        None => J::Null,
    });
    let (f, l, _) = loc(tcx, tcx.def_span(did));
    o.set("file", J::s(&f));
    o.set("line", J::n(l as i128));
    o.set("generics", J::n(tcx.generics_of(did).own_params.len() as i128));
    let mut discrs = std::collections::HashMap::new();
    if adt.is_enum() {
        for (vi, d) in adt.discriminants(tcx) {
            discrs.insert(vi, d.val);
        }
    }
    let mut vs = Vec::new();
    for (vi, v) in adt.variants().iter_enumerated() {
        let mut vo = J::obj();
        vo.set("name", J::s(v.name.as_str()));
        vo.set("idx", J::n(vi.as_u32() as i128));
        if let Some(d) = discrs.get(&vi) {
            // sign-extend according to the discriminant type size is not needed: repo enums are unsigned
            vo.set("discr", J::n(*d as i128));
        }
        let mut fs = Vec::new();
        for (fi, fd) in v.fields.iter_enumerated() {
            let mut fo = J::obj();
            fo.set("i", J::n(fi.as_u32() as i128));
            fo.set("name", J::s(fd.name.as_str()));
            let t = tcx.type_of(fd.did).instantiate_identity().skip_norm_wip();
            fo.set("ty", J::s(&ty_s(t)));
            fo.set("pub", J::b(tcx.visibility(fd.did).is_public()));
            fs.push(fo);
        }
        vo.set("fields", J::Arr(fs));
        vs.push(vo);
    }
    o.set("variants", J::Arr(vs));
    o
}

fn eval_const_item<'tcx>(tcx: TyCtxt<'tcx>, did: DefId) -> J {
    match tcx.const_eval_poly(did) {
        Ok(v) => {
            if let Some(si) = v.try_to_scalar_int() {
                J::n(si.to_bits_unchecked() as i128)
            } else {
                J::s(&format!("{:?}", v))
            }
        }
        Err(_) => J::Null,
    }
}

fn dump_assoc<'tcx>(tcx: TyCtxt<'tcx>, did: DefId, o: &mut J) {
    let mut consts = J::obj();
    let mut methods = Vec::new();
    let mut types = J::obj();
    for it in tcx.associated_items(did).in_definition_order() {
        match it.kind {
            ty::AssocKind::Const { name, .. } => {
                let has_value = it.defaultness(tcx).has_value();
                if has_value {
                    consts.set(name.as_str(), eval_const_item(tcx, it.def_id));
                } else {
                    consts.set(name.as_str(), J::Null);
                }
            }
            ty::AssocKind::Fn { name, .. } => {
                let mut m = J::obj();
                m.set("name", J::s(name.as_str()));
                m.set("path", J::s(&tcx.def_path_str(it.def_id)));
                m.set("has_body", J::b(it.defaultness(tcx).has_value()));
                if let Some(t) = it.trait_item_def_id() {
                    m.set("trait_item", J::s(&tcx.def_path_str(t)));
                }
                methods.push(m);
            }
            ty::AssocKind::Type { .. } => {
                // (the synthesized associated type of a return-position `impl Trait` in a trait has no name)
                if it.opt_name().is_some() && it.defaultness(tcx).has_value() {
                    let t = tcx.type_of(it.def_id).instantiate_identity().skip_norm_wip();
                    types.set(it.name().as_str(), J::s(&ty_s(t)));
                }
            }
        }
    }
    o.set("consts", consts);
    o.set("methods", J::Arr(methods));
    o.set("types", types);
}

fn dump_impl<'tcx>(tcx: TyCtxt<'tcx>, id: LocalDefId) -> J {
    let did = id.to_def_id();
    let mut o = J::obj();
    o.set("path", J::s(&tcx.def_path_str(did)));
    let self_ty = tcx.type_of(did).instantiate_identity().skip_norm_wip();
    o.set("self", J::s(&ty_s(self_ty)));
    if let ty::Adt(a, _) = self_ty.kind() {
        o.set("self_adt", J::s(&tcx.def_path_str(a.did())));
    }
    if tcx.impl_opt_trait_ref(did).is_some() {
        let tr = tcx.impl_trait_ref(did).instantiate_identity().skip_norm_wip();
        o.set("trait", J::s(&tcx.def_path_str(tr.def_id)));
        o.set("trait_ref", J::s(&format!("{}", tr.print_only_trait_path())));
        let mut ta = Vec::new();
        for a in tr.args.iter().skip(1) {
            ta.push(J::s(&format!("{}", a)));
        }
        o.set("trait_args", J::Arr(ta));
    } else {
        o.set("trait", J::Null);
    }
    let preds = tcx.predicates_of(did);
    let mut ps = Vec::new();
    for (p, _) in preds.predicates {
        ps.push(J::s(&format!("{}", p)));
    }
    o.set("preds", J::Arr(ps));
    let (f, l, macs) = loc(tcx, tcx.def_span(did));
    o.set("file", J::s(&f));
    o.set("line", J::n(l as i128));
    o.set("mac", J::Arr(macs.iter().map(|m| J::s(m)).collect()));
    dump_assoc(tcx, did, &mut o);
    o
}

fn dump_trait<'tcx>(tcx: TyCtxt<'tcx>, id: LocalDefId) -> J {
    let did = id.to_def_id();
    let mut o = J::obj();
    o.set("path", J::s(&tcx.def_path_str(did)));
    dump_assoc(tcx, did, &mut o);
    o
}

struct Cx<'a, 'tcx> {
    tcx: TyCtxt<'tcx>,
    body: &'a Body<'tcx>,
    def: LocalDefId,
    tenv: TypingEnv<'tcx>,
}

impl<'a, 'tcx> Cx<'a, 'tcx> {
    fn place(&self, p: &Place<'tcx>) -> J {
        let mut o = J::obj();
        o.set("l", J::n(p.local.as_u32() as i128));
        let mut pr = Vec::new();
        let mut pty = mir::PlaceTy::from_ty(self.body.local_decls[p.local].ty);
        for elem in p.projection.iter() {
            match elem {
                PlaceElem::Deref => pr.push(J::s("*")),
                PlaceElem::Field(f, _) => {
                    let mut fo = J::obj();
                    fo.set("f", J::n(f.as_u32() as i128));
                    match pty.ty.kind() {
                        ty::Adt(adt, _) => {
                            let vi = pty.variant_index.unwrap_or(rustc_abi::FIRST_VARIANT);
                            let v = adt.variant(vi);
                            if f.as_usize() < v.fields.len() {
                                fo.set("n", J::s(v.fields[f].name.as_str()));
                            }
                            fo.set("a", J::s(&self.tcx.def_path_str(adt.did())));
                            if adt.is_enum() {
                                fo.set("v", J::s(v.name.as_str()));
                            }
                        }
                        ty::Closure(..) => fo.set("a", J::s("{closure}")),
                        ty::Tuple(..) => fo.set("a", J::s("()")),
                        _ => {}
                    }
                    pr.push(fo);
                }
                PlaceElem::Downcast(_, vi) => {
                    let mut d = J::obj();
                    d.set("vi", J::n(vi.as_u32() as i128));
                    if let ty::Adt(adt, _) = pty.ty.kind() {
                        d.set("dc", J::s(adt.variant(vi).name.as_str()));
                        d.set("a", J::s(&self.tcx.def_path_str(adt.did())));
                    }
                    pr.push(d);
                }
                PlaceElem::Index(l) => {
                    let mut d = J::obj();
                    d.set("idx", J::n(l.as_u32() as i128));
                    pr.push(d);
                }
                PlaceElem::ConstantIndex { offset, min_length, from_end } => {
                    let mut d = J::obj();
                    d.set("ci", J::n(offset as i128));
                    d.set("min", J::n(min_length as i128));
                    d.set("fe", J::b(from_end));
                    pr.push(d);
                }
                PlaceElem::Subslice { from, to, from_end } => {
                    let mut d = J::obj();
                    d.set("sub", J::Arr(vec![J::n(from as i128), J::n(to as i128)]));
                    d.set("fe", J::b(from_end));
                    pr.push(d);
                }
                _ => pr.push(J::s("?")),
            }
            pty = pty.projection_ty(self.tcx, elem);
        }
        o.set("p", J::Arr(pr));
        o
    }

    fn constant(&self, c: &mir::ConstOperand<'tcx>) -> J {
        let mut o = J::obj();
        let t = c.const_.ty();
        o.set("ty", J::s(&ty_s(t)));
        match t.kind() {
            ty::FnDef(did, args) => {
                o.set("fn", self.fnref(*did, args));
            }
            _ => {
                if let Some(si) = c.const_.try_eval_scalar_int(self.tcx, self.tenv) {
                    let bits = si.to_bits_unchecked();
                    o.set("bits", J::n(bits as i128));
                    if let ty::Adt(adt, _) = t.kind() {
                        if adt.is_enum() {
                            for (vi, d) in adt.discriminants(self.tcx) {
                                if d.val == bits {
                                    o.set("variant", J::s(adt.variant(vi).name.as_str()));
                                }
                            }
                        }
                    }
                    if t.is_signed() {
                        let size = si.size();
                        o.set("int", J::n(si.to_int(size)));
                    }
                }
                o.set("s", J::s(&format!("{}", c.const_)));
            }
        }
        J::tag("const", o)
    }

    fn fnref(&self, did: DefId, args: ty::GenericArgsRef<'tcx>) -> J {
        let tcx = self.tcx;
        let mut o = J::obj();
        o.set("path", J::s(&tcx.def_path_str(did)));
        o.set("targs", J::Arr(args.iter().map(|a| J::s(&format!("{}", a))).collect()));
        o.set("local", J::b(did.is_local()));
        if let Some(tr) = tcx.trait_of_assoc(did) {
            o.set("trait", J::s(&tcx.def_path_str(tr)));
        }
        if let Some(im) = tcx.impl_of_assoc(did) {
            let st = tcx.type_of(im).instantiate_identity().skip_norm_wip();
            o.set("impl_self", J::s(&ty_s(st)));
        }
        o.set("name", J::s(tcx.item_name(did).as_str()));
        // resolution to a concrete instance
        let args_e = tcx.erase_and_anonymize_regions(args);
        if !args_e.has_infer() {
            if let Ok(Some(inst)) = Instance::try_resolve(tcx, self.tenv, did, args_e) {
                let rd = inst.def_id();
                if rd != did {
                    let mut r = J::obj();
                    r.set("path", J::s(&tcx.def_path_str(rd)));
                    r.set("local", J::b(rd.is_local()));
                    r.set("targs", J::Arr(inst.args.iter().map(|a| J::s(&format!("{}", a))).collect()));
                    if let Some(im) = tcx.impl_of_assoc(rd) {
                        let st = tcx.type_of(im).instantiate_identity().skip_norm_wip();
                        r.set("impl_self", J::s(&ty_s(st)));
                    }
                    o.set("res", r);
                } else {
                    o.set("res_same", J::b(true));
                }
                o.set("inst_kind", J::s(&format!("{:?}", std::mem::discriminant(&inst.def)).replace("Discriminant", "")));
                if let ty::InstanceKind::Virtual(..) = inst.def {
                    o.set("virtual", J::b(true));
                }
            }
        }
        o
    }

    fn operand(&self, op: &Operand<'tcx>) -> J {
        match op {
            Operand::Copy(p) => J::tag("copy", self.place(p)),
            Operand::Move(p) => J::tag("move", self.place(p)),
            Operand::Constant(c) => self.constant(c),
            #[allow(unreachable_patterns)]
            _ => J::tag("other", J::s(&format!("{:?}", op))),
        }
    }

    fn rvalue(&self, rv: &Rvalue<'tcx>) -> J {
        let mut o = J::obj();
        match rv {
            Rvalue::Use(op, ..) => {
                o.set("k", J::s("use"));
                o.set("op", self.operand(op));
            }
            Rvalue::Repeat(op, n) => {
                o.set("k", J::s("repeat"));
                o.set("op", self.operand(op));
                o.set("n", J::s(&format!("{}", n)));
            }
            Rvalue::Ref(_, bk, p) => {
                o.set("k", J::s("ref"));
                o.set("mut", J::b(matches!(bk, mir::BorrowKind::Mut { .. })));
                o.set("place", self.place(p));
            }
            Rvalue::RawPtr(_, p) => {
                o.set("k", J::s("rawptr"));
                o.set("place", self.place(p));
            }
            Rvalue::Cast(ck, op, t) => {
                o.set("k", J::s("cast"));
                o.set("ck", J::s(&format!("{:?}", ck)));
                o.set("op", self.operand(op));
                o.set("ty", J::s(&ty_s(*t)));
            }
            Rvalue::BinaryOp(b, ops) => {
                o.set("k", J::s("bin"));
                o.set("op", J::s(&format!("{:?}", b)));
                o.set("a", self.operand(&ops.0));
                o.set("b", self.operand(&ops.1));
            }
            Rvalue::UnaryOp(u, op) => {
                o.set("k", J::s("un"));
                o.set("op", J::s(&format!("{:?}", u)));
                o.set("a", self.operand(op));
            }
            Rvalue::Discriminant(p) => {
                o.set("k", J::s("discr"));
                o.set("place", self.place(p));
                let pt = p.ty(self.body, self.tcx).ty;
                if let ty::Adt(adt, _) = pt.kind() {
                    o.set("adt", J::s(&self.tcx.def_path_str(adt.did())));
                }
            }
            Rvalue::Aggregate(ak, ops) => {
                o.set("k", J::s("agg"));
                match &**ak {
                    AggregateKind::Adt(did, vi, _, _, active) => {
                        let adt = self.tcx.adt_def(*did);
                        o.set("adt", J::s(&self.tcx.def_path_str(*did)));
                        let v = adt.variant(*vi);
                        o.set("variant", J::s(v.name.as_str()));
                        o.set("vi", J::n(vi.as_u32() as i128));
                        if let Some(a) = active {
                            o.set("active", J::n(a.as_u32() as i128));
                        }
                        o.set(
                            "fields",
                            J::Arr(v.fields.iter().map(|f| J::s(f.name.as_str())).collect()),
                        );
                    }
                    AggregateKind::Tuple => o.set("tuple", J::b(true)),
                    AggregateKind::Array(t) => o.set("array", J::s(&ty_s(*t))),
                    AggregateKind::Closure(did, _) => {
                        o.set("closure", J::s(&self.tcx.def_path_str(*did)))
                    }
                    other => o.set("other", J::s(&format!("{:?}", other))),
                }
                o.set("ops", J::Arr(ops.iter().map(|x| self.operand(x)).collect()));
            }
            Rvalue::CopyForDeref(p) => {
                o.set("k", J::s("use"));
                o.set("op", J::tag("copy", self.place(p)));
            }
            other => {
                o.set("k", J::s("other"));
                o.set("s", J::s(&format!("{:?}", other)));
            }
        }
        o
    }

    fn line(&self, sp: Span, o: &mut J) {
        let (f, l, macs) = loc(self.tcx, sp);
        o.set("line", J::n(l as i128));
        if !macs.is_empty() {
            o.set("mac", J::Arr(macs.iter().map(|m| J::s(m)).collect()));
        }
        // only record file when it differs from the function's own
        let (ff, _, _) = loc(self.tcx, self.tcx.def_span(self.def.to_def_id()));
        if f != ff {
            o.set("file", J::s(&f));
        }
    }

    fn bb(b: BasicBlock) -> J {
        J::n(b.as_u32() as i128)
    }
}

fn dump_fn<'tcx>(tcx: TyCtxt<'tcx>, def: LocalDefId, stolen: &mut usize) -> Option<J> {
    let did = def.to_def_id();
    let phase = std::env::var("MQTT_FACTS_PHASE").unwrap_or_else(|_| "built".into());
    let steal = tcx.mir_built(def);
    let guard;
    let body: &Body<'tcx> = if phase == "built" && !steal.is_stolen() {
        guard = steal.borrow();
        &*guard
    } else if matches!(tcx.def_kind(did), DefKind::Const { .. } | DefKind::AssocConst { .. }) {
        // a constant's `mir_built` may already have been consumed by const evaluation (array lengths, patterns) that type
        // checking of earlier items asked for; its const-eval MIR is equivalent for the purpose (the initialiser's value)
        tcx.mir_for_ctfe(did)
    } else {
        if phase == "built" {
            *stolen += 1;
        }
        tcx.optimized_mir(did)
    };
    let tenv = TypingEnv::post_analysis(tcx, did);
    let cx = Cx { tcx, body, def, tenv };
    let mut o = J::obj();
    o.set("path", J::s(&tcx.def_path_str(did)));
    o.set("kind", J::s(&format!("{:?}", tcx.def_kind(did))));
    let (f, l, macs) = loc(tcx, tcx.def_span(did));
    o.set("file", J::s(&f));
    o.set("line", J::n(l as i128));
    if !macs.is_empty() {
        o.set("mac", J::Arr(macs.iter().map(|m| J::s(m)).collect()));
    }
    let sm = tcx.sess.source_map();
    let end = sm.lookup_char_pos(body.span.source_callsite().hi()).line;
    o.set("end_line", J::n(end as i128));
    {
        // generic parameter names in substitution order (parents first): lets the analysis bind `N` of `f::<N>` at a call
        let g = tcx.generics_of(did);
        let names: Vec<J> = (0..g.count()).map(|i| J::s(g.param_at(i, tcx).name.as_str())).collect();
        o.set("generics", J::Arr(names));
    }
    if matches!(tcx.def_kind(did), DefKind::Fn | DefKind::AssocFn) {
        o.set("pub", J::b(tcx.visibility(did).is_public()));
        if let Some(im) = tcx.impl_of_assoc(did) {
            let st = tcx.type_of(im).instantiate_identity().skip_norm_wip();
            o.set("impl_self", J::s(&ty_s(st)));
            o.set("impl", J::s(&tcx.def_path_str(im)));
            if tcx.impl_opt_trait_ref(im).is_some() {
                let tr = tcx.impl_trait_ref(im).instantiate_identity().skip_norm_wip();
                o.set("impl_trait", J::s(&tcx.def_path_str(tr.def_id)));
                o.set("impl_trait_ref", J::s(&format!("{}", tr.print_only_trait_path())));
            }
        }
        if let Some(tr) = tcx.trait_of_assoc(did) {
            o.set("trait_default_of", J::s(&tcx.def_path_str(tr)));
        }
        o.set("name", J::s(tcx.item_name(did).as_str()));
    } else if matches!(tcx.def_kind(did), DefKind::Const { .. } | DefKind::AssocConst { .. }) {
        o.set("pub", J::b(tcx.visibility(did).is_public()));
        o.set("name", J::s(tcx.item_name(did).as_str()));
        if let Some(im) = tcx.impl_of_assoc(did) {
            let st = tcx.type_of(im).instantiate_identity().skip_norm_wip();
            o.set("impl_self", J::s(&ty_s(st)));
        }
    } else {
        // closure: parent and captures
        let parent = tcx.typeck_root_def_id(did);
        o.set("parent", J::s(&tcx.def_path_str(parent)));
        let mut caps = Vec::new();
        for cp in tcx.closure_captures(def) {
            let mut c = J::obj();
            c.set("s", J::s(&cp.to_string(tcx)));
            c.set("by_ref", J::b(matches!(cp.info.capture_kind, ty::UpvarCapture::ByRef(_))));
            caps.push(c);
        }
        o.set("captures", J::Arr(caps));
    }
    o.set("argc", J::n(body.arg_count as i128));
    let mut locals = Vec::new();
    for (_, d) in body.local_decls.iter_enumerated() {
        locals.push(J::s(&ty_s(d.ty)));
    }
    o.set("locals", J::Arr(locals));
    let mut names = J::obj();
    for v in &body.var_debug_info {
        if let mir::VarDebugInfoContents::Place(p) = &v.value {
            if p.projection.is_empty() {
                names.set(&format!("{}", p.local.as_u32()), J::s(v.name.as_str()));
            } else {
                let mut e = J::obj();
                e.set("place", cx.place(p));
                names.set(&format!("@{}", v.name.as_str()), e);
            }
        }
    }
    o.set("names", names);

    let mut blocks = Vec::new();
    for (bi, bd) in body.basic_blocks.iter_enumerated() {
        let mut b = J::obj();
        b.set("i", Cx::bb(bi));
        if bd.is_cleanup {
            b.set("cleanup", J::b(true));
        }
        let mut stmts = Vec::new();
        for st in &bd.statements {
            match &st.kind {
                StatementKind::Assign(bx) => {
                    let (p, rv) = &**bx;
                    let mut s = J::obj();
                    s.set("k", J::s("assign"));
                    s.set("lhs", cx.place(p));
                    s.set("rv", cx.rvalue(rv));
                    cx.line(st.source_info.span, &mut s);
                    stmts.push(s);
                }
                StatementKind::SetDiscriminant { place, variant_index } => {
                    let mut s = J::obj();
                    s.set("k", J::s("setdiscr"));
                    s.set("lhs", cx.place(place));
                    s.set("vi", J::n(variant_index.as_u32() as i128));
                    cx.line(st.source_info.span, &mut s);
                    stmts.push(s);
                }
                StatementKind::StorageDead(l) => {
                    let mut s = J::obj();
                    s.set("k", J::s("dead"));
                    s.set("l", J::n(l.as_u32() as i128));
                    stmts.push(s);
                }
                StatementKind::Intrinsic(i) => {
                    let mut s = J::obj();
                    s.set("k", J::s("intrinsic"));
                    s.set("s", J::s(&format!("{:?}", i)));
                    cx.line(st.source_info.span, &mut s);
                    stmts.push(s);
                }
                _ => {}
            }
        }
        b.set("stmts", J::Arr(stmts));
        let term = bd.terminator();
        let mut t = J::obj();
        match &term.kind {
            TerminatorKind::Goto { target } => {
                t.set("k", J::s("goto"));
                t.set("t", Cx::bb(*target));
            }
            TerminatorKind::SwitchInt { discr, targets } => {
                t.set("k", J::s("switch"));
                t.set("discr", cx.operand(discr));
                let dt = discr.ty(body, tcx);
                t.set("dty", J::s(&ty_s(dt)));
                let mut ts = Vec::new();
                for (v, bbk) in targets.iter() {
                    ts.push(J::Arr(vec![J::n(v as i128), Cx::bb(bbk)]));
                }
                t.set("targets", J::Arr(ts));
                t.set("otherwise", Cx::bb(targets.otherwise()));
            }
            TerminatorKind::Return => t.set("k", J::s("return")),
            TerminatorKind::Unreachable => t.set("k", J::s("unreachable")),
            TerminatorKind::UnwindResume => t.set("k", J::s("resume")),
            TerminatorKind::UnwindTerminate(_) => t.set("k", J::s("terminate")),
            TerminatorKind::Drop { place, target, .. } => {
                t.set("k", J::s("drop"));
                t.set("place", cx.place(place));
                t.set("t", Cx::bb(*target));
            }
            TerminatorKind::Call { func, args, destination, target, fn_span, .. } => {
                t.set("k", J::s("call"));
                t.set("func", cx.operand(func));
                t.set("args", J::Arr(args.iter().map(|a| cx.operand(&a.node)).collect()));
                t.set("dest", cx.place(destination));
                match target {
                    Some(bbk) => t.set("t", Cx::bb(*bbk)),
                    None => t.set("t", J::Null),
                }
                let (_, fl, _) = loc(tcx, *fn_span);
                t.set("fn_line", J::n(fl as i128));
            }
            TerminatorKind::Assert { cond, expected, msg, target, .. } => {
                t.set("k", J::s("assert"));
                t.set("cond", cx.operand(cond));
                t.set("expected", J::b(*expected));
                t.set("t", Cx::bb(*target));
                let mut m = J::obj();
                use mir::AssertKind::*;
                match &**msg {
                    BoundsCheck { len, index } => {
                        m.set("k", J::s("bounds"));
                        m.set("len", cx.operand(len));
                        m.set("index", cx.operand(index));
                    }
                    Overflow(op, a, b2) => {
                        m.set("k", J::s("overflow"));
                        m.set("op", J::s(&format!("{:?}", op)));
                        m.set("a", cx.operand(a));
                        m.set("b", cx.operand(b2));
                        m.set("aty", J::s(&ty_s(a.ty(body, tcx))));
                        m.set("bty", J::s(&ty_s(b2.ty(body, tcx))));
                    }
                    OverflowNeg(a) => {
                        m.set("k", J::s("overflow_neg"));
                        m.set("a", cx.operand(a));
                    }
                    DivisionByZero(a) => {
                        m.set("k", J::s("div_zero"));
                        m.set("a", cx.operand(a));
                        m.set("aty", J::s(&ty_s(a.ty(body, tcx))));
                    }
                    RemainderByZero(a) => {
                        m.set("k", J::s("rem_zero"));
                        m.set("a", cx.operand(a));
                        m.set("aty", J::s(&ty_s(a.ty(body, tcx))));
                    }
                    other => {
                        m.set("k", J::s("other"));
                        m.set("s", J::s(&format!("{:?}", other)));
                    }
                }
                t.set("msg", m);
            }
            TerminatorKind::FalseEdge { real_target, .. } => {
                t.set("k", J::s("goto"));
                t.set("t", Cx::bb(*real_target));
                t.set("false_edge", J::b(true));
            }
            TerminatorKind::FalseUnwind { real_target, .. } => {
                t.set("k", J::s("goto"));
                t.set("t", Cx::bb(*real_target));
                t.set("false_unwind", J::b(true));
            }
            other => {
                t.set("k", J::s("other"));
                t.set("s", J::s(&format!("{:?}", other)));
            }
        }
        cx.line(term.source_info.span, &mut t);
        b.set("term", t);
        blocks.push(b);
    }
    o.set("blocks", J::Arr(blocks));
    let _ = write!(&mut String::new(), "");
    Some(o)
}
