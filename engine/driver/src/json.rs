// Minimal JSON value + writer (the driver has no dependencies).
pub enum J {
    Null,
    Bool(bool),
    Num(i128),
    Str(String),
    Arr(Vec<J>),
    Obj(Vec<(String, J)>),
}

impl J {
    pub fn obj() -> J {
        J::Obj(Vec::new())
    }
    pub fn s(s: &str) -> J {
        J::Str(s.to_string())
    }
    pub fn n(n: i128) -> J {
        J::Num(n)
    }
    pub fn b(b: bool) -> J {
        J::Bool(b)
    }
    pub fn tag(k: &str, v: J) -> J {
        J::Obj(vec![(k.to_string(), v)])
    }
    pub fn set(&mut self, k: &str, v: J) {
        if let J::Obj(o) = self {
            o.push((k.to_string(), v));
        }
    }
    pub fn write(&self, out: &mut String) {
        match self {
            J::Null => out.push_str("null"),
            J::Bool(b) => out.push_str(if *b { "true" } else { "false" }),
            J::Num(n) => out.push_str(&n.to_string()),
            J::Str(s) => wstr(s, out),
            J::Arr(a) => {
                out.push('[');
                for (i, x) in a.iter().enumerate() {
                    if i > 0 {
                        out.push(',');
                    }
                    x.write(out);
                }
                out.push(']');
            }
            J::Obj(o) => {
                out.push('{');
                for (i, (k, v)) in o.iter().enumerate() {
                    if i > 0 {
                        out.push(',');
                    }
                    wstr(k, out);
                    out.push(':');
                    v.write(out);
                }
                out.push('}');
            }
        }
    }
}

fn wstr(s: &str, out: &mut String) {
    out.push('"');
    for c in s.chars() {
        match c {
            '"' => out.push_str("\\\""),
            '\\' => out.push_str("\\\\"),
            '\n' => out.push_str("\\n"),
            '\r' => out.push_str("\\r"),
            '\t' => out.push_str("\\t"),
            c if (c as u32) < 0x20 => out.push_str(&format!("\\u{:04x}", c as u32)),
            c => out.push(c),
        }
    }
    out.push('"');
}
