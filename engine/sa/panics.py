"""A6 - panic-site enumeration with mechanical discharge.

For one function (explored with a given inlining profile) every panic-capable construct met on some
abstract path is turned into an obligation:
  assert     MIR Assert terminator (bounds / overflow / div / rem / shift) whose condition the explorer did
             not decide                                   -> D1 const, D2 linear facts, D3 type intervals
  unwrap     Option/Result unwrap / expect on a value not known to be Some/Ok on the path
  index      slice / Vec / str / array `Index::index(_mut)` call with a range or position argument
                                                          -> D2 linear facts (start <= end <= len)
  copy       copy_from_slice (length equality)            -> D2
  panic      an explicit panic!/unreachable!/assert! expansion reached on a feasible path
  fails      an assert / unwrap the explorer decided to fail on a feasible path
Keys carry no line numbers: (function, kind, description, ordinal in CFG order).
"""
import re

import conn
import explore
import linear

EXT_INDEX = re.compile(r"(::index::<impl std::ops::Index(Mut)?<I> for \[T\]>::index(_mut)?$)|(as std::ops::Index(Mut)?<I>>::index(_mut)?$)|(impl std::ops::Index<I> for (str|\[T; N\])>::index$)")
PANIC_FNS = ("std::panicking::panic_fmt", "std::panicking::panic", "std::panicking::assert_failed", "std::panicking::unreachable_display",
             "std::panicking::panic_display", "std::option::expect_failed", "std::result::unwrap_failed")
# Standard-library calls that panic on a violated precondition (beyond indexing / unwrap / copy_from_slice, which have their
# own obligation kinds).  (regex on the resolved callee, what must hold, how it may be discharged)
STD_PANICS = [
    (re.compile(r"^std::(slice::<impl \[T\]>|str::<impl str>)::split_at(_mut)?$"), "split_at: mid <= len", "mid_le_len"),
    (re.compile(r"^std::vec::Vec::<T, A>::(remove|swap_remove)$"), "index < len", "idx_lt_len"),
    (re.compile(r"^std::vec::Vec::<T, A>::(insert|split_off)$"), "index <= len", "mid_le_len"),
    (re.compile(r"^std::vec::Vec::<T, A>::drain$|^std::collections::VecDeque::<T, A>::(drain|remove|insert|swap|split_off)$"), "range within len", None),
    (re.compile(r"^std::slice::<impl \[T\]>::(swap|copy_within|rotate_left|rotate_right|select_nth_unstable\w*)$"), "indices within len", None),
    (re.compile(r"^std::slice::<impl \[T\]>::clone_from_slice$"), "len(dst) == len(src)", "len_eq"),
    (re.compile(r"^std::slice::<impl \[T\]>::(chunks|chunks_exact|chunks_mut|rchunks|windows|chunks_exact_mut)$"), "size != 0", "nonzero_arg"),
    (re.compile(r"^std::iter::Iterator::step_by$"), "step != 0", "nonzero_arg"),
    (re.compile(r"(hashbrown::HashMap|indexmap::IndexMap|std::collections::(BTreeMap|HashMap|VecDeque))<.*> as std::ops::Index(Mut)?<.*>>::index(_mut)?$"), "key / index present", None),
    (re.compile(r"^std::cell::RefCell::<T>::(borrow|borrow_mut)$"), "not already borrowed", None),
    (re.compile(r"^std::(option::Option::<T>|result::Result::<T, E>)::(unwrap_err|expect_err|unwrap_unchecked)$"), "variant as expected", None),
    (re.compile(r"^std::num::<impl (u|i)(8|16|32|64|128|size)>::(pow|abs|next_power_of_two|div_euclid|rem_euclid|ilog2|ilog10|ilog)$"), "no overflow / valid operand", None),
    (re.compile(r"^<std::time::(Duration|Instant) as std::ops::(Add|Sub|Mul|Div)(<.*>)?>::(add|sub|mul|div)$"), "no overflow", None),
    (re.compile(r"^std::char::(from_digit|methods::<impl char>::(to_digit|from_digit))$"), "radix <= 36", None),
]


def std_panic(callee):
    for rx, what, how in STD_PANICS:
        if rx.search(callee):
            return what, how
    return None


A_MEM = 1 << 56       # assumption A-MEM: in-memory lengths / sizes are below 2^56
DEC_RET = re.compile(r"^std::result::Result<\(.*, usize\), mqtt::result_code::MqttError>$")


def type_range(ty):
    return explore.int_range(ty)


_ITER_OK = ("into_iter", "enumerate", "take", "iter", "copied", "cloned", "iter_mut", "by_ref", "next")


def enumerate_bound(recv):
    """Largest index an `enumerate()` over this iterator expression can yield: N-1 under `.take(N)`, A-MEM for an in-memory
    collection; None when the chain contains an adaptor that is not understood."""
    take = []
    ok = [True]
    src = [False]

    def walk(t, depth=0):
        if not isinstance(t, tuple) or not t or depth > 60:
            return
        if t[0] == "call" and isinstance(t[1], str):
            nm = t[1].split("::")[-1]
            if "iter" in t[1].lower() or "Iterator" in t[1]:
                if nm not in _ITER_OK:
                    ok[0] = False
                if nm == "take" and len(t[2]) == 2 and t[2][1][0] == "c":
                    take.append(t[2][1][1])
                if nm in ("iter", "iter_mut") or (nm == "into_iter" and "slice" in t[1]):
                    src[0] = True
            for a in t[2]:
                walk(a, depth + 1)
            return
        if t[0] == "mut":
            # iterator state after earlier next() calls: same chain
            walk(t[3], depth + 1)
            return
        if t[0] in ("sym",):
            walk(t[1], depth + 1)
            return
        if t[0] in ("field", "deref", "cast"):
            walk(t[1], depth + 1)
    walk(recv)
    if not ok[0]:
        return None
    if take:
        return max(min(take) - 1, 0)
    if src[0]:
        return A_MEM
    return None


class Intervals:
    """Upper/lower bounds of terms from their structure: casts from narrower types, constants, masks, shifts,
    lengths (A-MEM)."""

    def __init__(self, F, expand):
        self.F = F
        self.expand = expand

    def of(self, v, ty=None):
        v = self.expand(v)
        lo, hi = type_range(ty) if ty else (0, None)
        if v[0] == "c" and isinstance(v[1], int):
            return (v[1], v[1])
        if v[0] != "sym":
            return (0 if lo is None else lo, hi)
        t = v[1]
        r = self.term(t)
        if r is None:
            return (lo, hi)
        rlo, rhi = r
        if hi is not None and (rhi is None or rhi > hi):
            rhi = hi
        return (max(rlo, lo) if lo is not None else rlo, rhi)

    def term(self, t):
        t = self.expand(t)
        k = t[0]
        if k == "cast":
            src = self.of(t[1], t[3] if len(t) > 3 else None)
            tl, th = type_range(t[2])
            # source type unknown: use what the structure gives
            hi = src[1] if src[1] is not None else th
            if th is not None and hi is not None:
                hi = min(hi, th)
            return (max(src[0], 0), hi)
        if k == "field" and t[2] == 0 and isinstance(t[1], tuple) and t[1] and t[1][0] == "field" and t[1][2] == 0:
            x = self.expand(t[1][1])
            if isinstance(x, tuple) and x and x[0] == "call" and x[1].endswith("Enumerate<I> as std::iter::Iterator>::next") and x[2]:
                b = enumerate_bound(self.expand(x[2][0]))
                if b is not None:
                    return (0, b)
        if k in ("into", "from") and len(t) > 1:
            inner = self.expand(t[1])
            if inner[0] == "sym" and inner[1][0] in ("enum_eq", "cmp", "not"):
                return (0, 1)            # usize::from(bool)
            if inner[0] == "c" and isinstance(inner[1], int):
                return (inner[1], inner[1])
            r = self.of(inner)
            return r if r[1] is not None else None
        if k == "index":
            # element of a byte slice / array
            return (0, 255) if True else None
        if k == "bin":
            op = t[1].replace("WithOverflow", "").replace("Unchecked", "")
            a = self.of(t[2])
            b = self.of(t[3])
            if None in (a[1], b[1]):
                if op == "BitAnd":
                    hs = [x for x in (a[1], b[1]) if x is not None]
                    return (0, min(hs)) if hs else None
                if op == "Shr" and a[1] is not None:
                    return (0, a[1])
                return None
            if op == "Add":
                return (a[0] + b[0], a[1] + b[1])
            if op == "Mul":
                return (a[0] * b[0], a[1] * b[1])
            if op == "BitAnd":
                return (0, min(a[1], b[1]))
            if op in ("BitOr", "BitXor"):
                return (0, a[1] + b[1])
            if op == "Shl" and b[0] == b[1]:
                return (a[0] << b[0], a[1] << b[1])
            if op == "Shr" and b[0] == b[1]:
                return (a[0] >> b[0], a[1] >> b[1])
            if op == "Sub":
                return (max(a[0] - b[1], 0), a[1])
            if op == "Div" and b[0] > 0:
                return (a[0] // b[1], a[1] // b[0])
            return None
        if k == "len" or (k == "call" and t[1].split("::")[-1] in ("len", "size", "size_of", "remaining_length", "capacity", "sum")):
            return (0, A_MEM)
        if k == "field" and t[2] in (0, 1) and isinstance(t[1], tuple) and t[1] and t[1][0] == "bin":
            return self.term(t[1])
        if k == "field" and t[2] == 0 and isinstance(t[1], tuple) and t[1] and t[1][0] == "call" \
                and t[1][1].split("::")[-1] in ("position", "rposition", "get_index_of", "binary_search") and ("Iterator" in t[1][1] or "slice" in t[1][1] or "IndexMap" in t[1][1]):
            return (0, A_MEM)          # an index into an in-memory sequence (A-MEM)
        if k == "field" and t[2] == 1 and isinstance(t[1], tuple) and t[1] and t[1][0] == "field" and t[1][2] == 0 \
                and isinstance(t[1][1], tuple) and t[1][1] and t[1][1][0] == "call":
            callee = self.F.fns.get(t[1][1][1])
            if callee is not None and DEC_RET.match(callee["locals"][0]):
                return (0, A_MEM)      # consumed count of an in-crate decoder: <= len(input) (C04-R6) <= A-MEM
        if k == "call":
            callee = self.F.fns.get(t[1])
            if callee is not None:
                er = enum_fn_range(self.F, callee)
                if er is not None:
                    return er
                rt = callee["locals"][0]
                r = type_range(rt)
                if r[1] is not None and r[1] < (1 << 100):
                    return (max(r[0], 0), r[1])
            nm = t[1].split("::")[-1]
            if nm in ("from_be_bytes",):
                m = re.search(r"impl (u\d+)>", t[1])
                if m:
                    return type_range(m.group(1))
        if k == "field" and t[2] == 1 and isinstance(t[1], tuple) and t[1] and t[1][0] == "call" and t[1][1].endswith("VariableByteInteger::decode_stream"):
            return (0, 4)          # bytes consumed by the variable-byte-integer stream decoder (reads at most 4: iter().take(4))
        if k == "init" or k == "arg":
            return None
        return None


_efr = {}


def enum_fn_range(F, callee):
    """Range of an in-crate function from a fieldless enum to an integer (`PropertyId::as_u8`, a discriminant cast, a
    `match` table): the function is evaluated on every variant; all results must be constants."""
    key = (F.hash, callee["path"])
    if key in _efr:
        return _efr[key]
    _efr[key] = None
    try:
        if callee.get("argc") != 1 or type_range(callee["locals"][0])[1] is None or len(callee["blocks"]) > 80:
            return None
        E = callee["locals"][1].lstrip("&").strip()
        adt = F.adts.get(E)
        if not adt or adt.get("kind") != "enum" or any(v.get("fields") for v in adt["variants"]) or not (0 < len(adt["variants"]) <= 64):
            return None
        byref = callee["locals"][1].startswith("&")
        vals = []
        for v in adt["variants"]:
            def setup(ex, st, fr, v=v):
                val = ("agg", E, v["name"], ())
                if byref:
                    st.heap[(("EFR", v["name"]), ())] = val
                    st.heap[(fr.root(1), ())] = ("ref", ("EFR", v["name"]), ())
                else:
                    st.heap[(fr.root(1), ())] = val
            ex = explore.Explorer(F)
            for q in ex.run(callee["path"], setup=setup):
                if q.kind != "return" or not (q.ret and q.ret[0] == "c" and isinstance(q.ret[1], int)):
                    return None
                vals.append(q.ret[1])
        if vals:
            _efr[key] = (min(vals), max(vals))
    except explore.ExploreError:
        return None
    return _efr[key]


class PrefixPath:
    """View of a path up to (not including) effect idx, with the constraints known at that point."""

    def __init__(self, p, idx, cons):
        self.effects = p.effects[:idx]
        self.cons = cons
        self.ret = None
        self.kind = "prefix"


class Ob:
    def __init__(self, kind, fn, desc, site, status, why, path):
        self.kind = kind
        self.fn = fn
        self.desc = desc
        self.site = site
        self.status = status      # 'discharged' | 'open' | 'fails'
        self.why = why
        self.path = path
        self.key = None


def ledger_match(ledger, o, taken=None, entry=None):
    """Audited entry covering an obligation: the exact key, or - for sites identified by conditions (explicit panics,
    generic arithmetic) - a set of entries `owner|kind|desc(conds)` such that every path reaching the site satisfies the
    conditions of one of them (a site merged from several audited situations is still audited; a site reachable under
    conditions no entry covers is not)."""
    e = ledger.get(o.key)
    if e is not None:
        return e
    # a site that moved into a private helper shared by several entry points keeps the audit of the function it was
    # inlined into: the same (kind, description) keyed by a function on the inline chain from the entry to the site -
    # but only when that key is not claimed by a site of its own in this analysis (`taken`)
    if taken is not None and o.kind != "panic" and getattr(o, "chain", None) is not None:
        m0 = re.match(r"^(.*?)(\|%s\|.*)$" % re.escape(o.kind), o.key or "")
        if m0:
            for anc in [entry] + list(reversed(o.chain)):
                if not anc:
                    continue
                k2 = short_fn(anc) + m0.group(2)
                if k2 != o.key and k2 in ledger and k2 not in taken:
                    taken.add(k2)
                    return dict(ledger[k2], via=k2)
    pcs = getattr(o, "path_conds", None)
    if not pcs:
        return None
    m = re.match(r"^(.*?\|%s\|%s)(?:\((.*)\))?\|#\d+$" % (re.escape(o.kind), re.escape(o.desc)), o.key)
    if not m:
        return None
    prefix = m.group(1)
    entries = []
    for k, v in ledger.items():
        mm = re.match(r"^%s(?:\((.*)\))?\|#\d+$" % re.escape(prefix), k)
        if mm:
            entries.append((frozenset(x for x in (mm.group(1) or "").split(";") if x), v))
    if not entries:
        return None
    used = []
    for P in pcs:
        hit = [v for E, v in entries if E and E <= P]
        if not hit:
            return None
        used.append(hit[0])
    return {"reason": " / ".join(sorted({u["reason"] for u in used})), "keys": True}


def owner_fn(F, path, stop=None):
    """Function an obligation is attributed to: closures belong to their parent, and a private function with a single
    calling function belongs to that caller (a block extracted into a helper keeps its identity)."""
    cm = conn.callers_map(F)
    seen = set()
    while path not in seen:
        seen.add(path)
        g = F.fns.get(path)
        if g is None or path == stop:
            return path
        if g.get("kind") == "Closure" and g.get("parent"):
            path = g["parent"]
            continue
        if g.get("pub"):
            return path
        cs = {c for c in cm.get(path, set()) if c != path}
        if len(cs) == 1:
            path = next(iter(cs))
            continue
        return path
    return path


def collect(F, fn_path, tag="", inline_pred=None, facts_hook=None, loop_k=1, rename=None):
    """Obligations of one function.  Returns (list of Ob with stable keys, stats).
    rename: optional field-name -> role-name map applied to the operand descriptions in keys."""
    rename = rename or {}
    if inline_pred is not None:
        ex = explore.Explorer(F, inline_pred=inline_pred, loop_k=loop_k)
        ps = ex.run(fn_path)
        interned = ex.interned_rev
    else:
        res = conn.paths(F, fn_path, tag=tag, loop_k=loop_k)
        ps = res["paths"]
        interned = res["interned"]

    def expand(t):
        return conn.expand_all(interned, t)
    lin = linear.Lin(expand)
    iv = Intervals(F, expand)
    sites = {}      # (site_fn, line, kind, desc) -> Ob aggregated over paths (open wins over discharged)

    def note(kind, desc, site, status, why, p, detail=None, conds=None):
        """conds: ';'-separated enum conditions of this path at the site; the site is described by the conditions common
        to every path that reaches it (what is necessary to get there), not by whichever path happened to come first."""
        k = (site[0], site[1], kind, desc)
        o = sites.get(k)
        cs = set(conds.split(";")) if conds else set()
        if o is None:
            o = sites[k] = Ob(kind, site[0], desc, site, status, why, p)
            o.chain = list(cur.get("chain") or [])
            o.detail = detail
            o.conds = cs if conds is not None else None
            o.path_conds = {frozenset(cs)} if conds is not None else set()
        else:
            if conds is not None and o.conds is not None:
                o.conds &= cs
                o.path_conds.add(frozenset(cs))
            rank = {"discharged": 0, "open": 1, "fails": 2}
            if rank[status] > rank[o.status]:
                o.status, o.why, o.path = status, why, p
                if detail:
                    o.detail = detail

    def producer(v, depth=0):
        """What produced a value, in words that do not depend on positions: callee name, field name, variant."""
        v = expand(v)
        if v[0] == "c":
            return str(v[1])
        if v[0] == "agg":
            return v[2]
        if v[0] in ("ref",):
            return "&"
        if v[0] != "sym" or depth > 3:
            return v[0]
        t = v[1]
        if t[0] == "call":
            return t[1].split("::")[-1].split("<")[0]
        if t[0] == "mut":
            return t[1][0].split("::")[-1]
        if t[0] in ("field", "cast", "not", "len", "deref"):
            return producer(("sym", t[1]) if not (isinstance(t[1], tuple) and t[1] and t[1][0] in ("sym", "c", "agg", "ref")) else t[1], depth + 1)
        if t[0] == "init":
            names = [str(el[2]) for el in t[2] if el[0] == "f" and len(el) > 2 and el[2] is not None]
            return rename.get(names[-1], names[-1]) if names else (t[1][1] if t[1][0] == "arg" else t[1][0])
        if t[0] == "arg":
            return str(t[1])
        if t[0] == "bin":
            return t[1].replace("WithOverflow", "")
        return t[0]

    for p in ps:
        cur = {"idx": 0, "snap": None, "facts": None}

        def get_facts():
            # only what was established BEFORE the obligation: the constraint snapshot taken at that point
            # (never the whole path's constraints - they contain the obligation's own success assumption)
            if cur["facts"] is None:
                snap = cur["snap"]
                fs = lin.facts_of_cons(snap if snap is not None else {})
                if facts_hook:
                    fs = fs + facts_hook(F, PrefixPath(p, cur["idx"], snap if snap is not None else {}), lin, expand)
                cur["facts"] = fs
                cur["lin"] = lin
            return cur["facts"]
        active = []
        for idx, e in enumerate(p.effects):
            cur["idx"] = idx
            cur["facts"] = None
            cur["snap"] = None
            if e[0] == "enter":
                active.append(e[1])
            elif e[0] == "exit" and active and active[-1] == e[1]:
                active.pop()
            cur["chain"] = active
            if e[0] == "assert" and len(e) > 5:
                cur["snap"] = e[5]
            elif e[0] == "call" and len(e) > 6:
                cur["snap"] = e[6]
            elif e[0] == "unwrap" and len(e) > 5:
                cur["snap"] = e[5]
            if e[0] == "assert":
                kind, site, status = e[1], e[2], e[3]
                if status == "discharged":
                    note("assert", kind, site, "discharged", "D1 decided by constant / path constraints", p)
                    continue
                if status == "fails":
                    note("assert", kind, site, "fails", "condition is false on a feasible path", p)
                    continue
                op, cv, ops, tys = e[4]
                ok, why = discharge_assert(kind, op, ops, tys, lin, iv, get_facts)
                sfn = F.fns.get(site[0]) if site else None
                if not ok and kind == "overflow" and op == "Sub" and len(ops) == 2 and sfn is not None and sfn.get("impl_self") \
                        and sfn["locals"][1:2] and sfn["locals"][1].startswith("&") and not sfn["locals"][1].startswith("&mut"):
                    a0 = expand(ops[0])
                    b0 = expand(ops[1])
                    la = a0[1] if a0[0] == "sym" else None
                    base = la[1] if (la and la[0] == "len") else (la[2][0] if (la and la[0] == "call" and la[1].endswith("::len") and la[2]) else None)
                    if base is not None and is_self_payload(expand(base)) and b0[0] == "c":
                        dsc = "overflow:Sub[payload:len-%d]" % b0[1]
                        note("assert", dsc, site, "open", why + " (representation invariant of %s)" % sfn["impl_self"].split("::")[-1], p)
                        sites[(site[0], site[1], "assert", dsc)].type_owner = short_fn(sfn["impl_self"].split("<")[0])
                        continue
                note("assert", "%s%s" % (kind, (":" + op) if op else ""), site, "discharged" if ok else "open", why, p,
                     detail=",".join(producer(x) for x in ops) if not ok else None)
            elif e[0] == "unwrap":
                status = e[4]
                nm = e[1].split("::")[-1]
                if status == "open":
                    okc, whyc = discharge_conversion(e[2], lin, expand, get_facts)
                    if okc:
                        note("unwrap", nm, e[3], "discharged", whyc, p)
                        continue
                    v = expand(e[2])
                    if v[0] == "sym" and v[1][0] == "call" and v[1][1].endswith("VariableByteInteger::from_u32"):
                        # A-RL: a length computed from parts of an input / packet whose total is at most 268 435 455 bytes
                        arg = v[1][2][0] if v[1][2] else None
                        hi = iv.of(arg)[1] if arg is not None else None
                        if hi is not None and hi <= 268435455:
                            note("unwrap", nm, e[3], "discharged", "D3 interval: from_u32 argument <= %d" % hi, p)
                        else:
                            note("unwrap", "from_u32", e[3], "discharged", "A-RL (assumption): length of parsed/encoded parts fits a variable byte integer", p)
                        continue
                note("unwrap", nm, e[3], status if status != "open" else "open",
                     "value known Some/Ok on the path" if status == "discharged" else "unwrap of a value not known to be Some/Ok", p,
                     detail=producer(e[2]) if status != "discharged" else None)
            elif e[0] == "call":
                callee = e[1]
                if EXT_INDEX.search(callee):
                    ok, why = discharge_index(e, lin, expand, get_facts)
                    shp = None if ok else payload_shape(e, expand)
                    sfn = F.fns.get(e[5][0]) if e[5] else None
                    if shp is not None and sfn is not None and sfn.get("impl_self") and sfn["locals"][1:2] and sfn["locals"][1].startswith("&") \
                            and not sfn["locals"][1].startswith("&mut") and sfn["impl_self"].split("<")[0] in sfn["locals"][1]:
                        # an index into the byte payload of `&self`, bounded by the length prefix stored in that payload: a site
                        # of the value type's representation invariant, identified by the type and the shape of the range
                        note("index", "index[payload:%s]" % shp, e[5], "open", why + " (representation invariant of %s)" % sfn["impl_self"].split("::")[-1], p)
                        sites[(e[5][0], e[5][1], "index", "index[payload:%s]" % shp)].type_owner = short_fn(sfn["impl_self"].split("<")[0])
                    else:
                        note("index", index_desc(e, expand), e[5], "discharged" if ok else "open", why, p)
                elif callee.endswith("::copy_from_slice"):
                    a = lin.len_of(e[3][0]) if e[3] else None
                    b = lin.len_of(e[3][1]) if len(e[3]) > 1 else None
                    ok = False
                    if a and b:
                        ok = ent(get_facts(), linear.lin_add(a, b, -1), lin) and ent(get_facts(), linear.lin_add(b, a, -1), lin)
                    note("copy", "copy_from_slice", e[5], "discharged" if ok else "open", "len(dst) == len(src) " + ("proved" if ok else "not proved"), p)
                elif callee == "mqtt::common::arc_payload::ArcPayload::new" and len(e[3]) >= 3:
                    # precondition (debug_assert in the callee): start + length <= data.len()
                    q = linear.lin_add(linear.lin_add(lin.of_value(e[3][1]), lin.of_value(e[3][2])), lin.len_of(e[3][0]), -1)
                    ok = linear.entails(get_facts(), q)
                    note("precond", "ArcPayload::new", e[5], "discharged" if ok else "open", "start + length <= len(data) " + ("proved (D2)" if ok else "not proved"), p)
                elif std_panic(callee):
                    what, how = std_panic(callee)
                    ok = False
                    a = e[3]
                    if how in ("mid_le_len", "idx_lt_len") and len(a) >= 2:
                        q = linear.lin_add(lin.of_value(a[1]), lin.len_of(a[0]), -1)
                        if how == "idx_lt_len":
                            q = linear.lin_add(q, linear.const(1))
                        ok = ent(get_facts(), q, lin)
                    elif how == "len_eq" and len(a) >= 2:
                        x, y = lin.len_of(a[0]), lin.len_of(a[1])
                        ok = ent(get_facts(), linear.lin_add(x, y, -1), lin) and ent(get_facts(), linear.lin_add(y, x, -1), lin)
                    elif how == "nonzero_arg" and len(a) >= 2:
                        v = expand(a[1])
                        ok = v[0] == "c" and isinstance(v[1], int) and v[1] != 0
                    note("stdpanic", "%s (%s)" % (callee.split("::")[-1], what), e[5], "discharged" if ok else "open",
                         "%s %s" % (what, "proved (D2)" if ok else "not proved"), p,
                         detail=",".join(producer(x) for x in a[:2]) if not ok else None)
                elif callee in GENERIC_ARITH and callee not in F.fns:
                    # arithmetic on a generic integer (num-traits): a trait call in MIR, no overflow assert - panics in debug
                    # builds and wraps in release builds when it overflows
                    snap_c = (e[6] if len(e) > 6 and e[6] is not None else {})
                    conds = enum_conditions(F, snap_c or p.cons, expand, any_root=True)
                    # D5: x + 1 cannot overflow where x < y was established for some y of the same type; x - 1 where y < x
                    okg = False
                    opn = callee.split("::")[-1]
                    if len(e[3]) >= 2 and e[3][1][0] == "sym" and expand(e[3][1])[1][0] == "call" and expand(e[3][1])[1][1].endswith("::one"):
                        x = repr(expand(e[3][0]))
                        for k2, c2 in snap_c.items():
                            k2 = expand(k2)
                            if k2[0] == "cmp" and k2[1] == "Lt" and c2 == ("eq", 1):
                                if (opn == "add" and repr(k2[2]) == x) or (opn == "sub" and repr(k2[3]) == x):
                                    okg = True
                    dsc = "generic:%s(%s)" % (opn, ",".join(producer(x) for x in e[3][:2]))
                    if okg:
                        note("arith", dsc, e[5] if len(e) > 5 else (fn_path, None), "discharged",
                             "D5: guarded by a strict comparison with another value of the same type", p)
                        continue
                    note("arith", dsc, e[5] if len(e) > 5 else (fn_path, None), "open",
                         "generic integer arithmetic may overflow", p, conds=conds)
                elif callee in PANIC_FNS:
                    note("panic", callee.split("::")[-1], e[5], "fails", "explicit panic reached on a feasible path", p,
                         conds=enum_conditions(F, (e[6] if len(e) > 6 and e[6] is not None else p.cons), expand))
        if p.kind == "panic":
            pass  # already noted through the failing assert / unwrap effect
    # stable keys: ordinal among identical (fn, kind, desc) in source order
    obs = sorted(sites.values(), key=lambda o: (o.fn, o.site[1] or 0, o.kind, o.desc))
    counts = {}
    counts_old = {}
    for o in obs:
        # discharged sites need no stable identity beyond (fn, kind, desc); open ones are identified by what produced the
        # operand, so that adding or removing an unrelated site in the same function does not renumber them
        d = getattr(o, "detail", None)
        if getattr(o, "conds", None):
            d = (d or "") + ";".join(sorted(o.conds)) if not d else d + "{" + ";".join(sorted(o.conds)) + "}"
        desc = o.desc + ("(%s)" % d if (d and o.status != "discharged") else "")
        base = (owner_fn(F, o.fn, fn_path) if o.status != "discharged" else o.fn, o.kind, desc, o.status == "discharged")
        n = counts.get(base, 0)
        counts[base] = n + 1
        bo = (o.fn, o.kind, o.desc)
        no = counts_old.get(bo, 0)
        counts_old[bo] = no + 1
        bprev = (o.fn, o.kind, desc, o.status == "discharged")
        nprev = counts_old.get(bprev, 0)
        counts_old[bprev] = nprev + 1
        o.key_prev = "%s|%s|%s|#%d" % (short_fn(fn_path if o.kind == "panic" else o.fn), o.kind, desc, nprev)
        o.key_old = "%s|%s|%s|#%d" % (short_fn(o.fn), o.kind, o.desc, no)
        # an explicit panic is identified by the entry point it is reachable from and the enum-valued conditions under
        # which it is reached, not by the (possibly private helper) function that contains it
        where = fn_path if o.kind == "panic" else owner_fn(F, o.fn, fn_path)
        o.key = "%s|%s|%s|#%d" % (short_fn(where), o.kind, desc, n) if o.status != "discharged" else o.key_old
        if getattr(o, "type_owner", None) and o.status != "discharged":
            o.key = "type:%s|%s|%s" % (o.type_owner, o.kind, desc)       # wherever the accessor code lives
    return obs, {"paths": len(ps)}


GENERIC_ARITH = ("std::ops::Add::add", "std::ops::Sub::sub", "std::ops::Mul::mul")


def enum_conditions(F, cons, expand, any_root=False):
    """`field=Variant` for every enum-valued state field / argument the constraints pin to one variant (sorted, position-free).
    any_root: also results of calls (named by the callee), for sites identified by the local decisions they sit under."""
    out = set()
    for k, c in cons.items():
        k = expand(k)
        if any_root and k[0] == "discr" and c[0] == "eq" and isinstance(k[1], tuple) and k[1] and k[1][0] in ("call", "field") :
            t = k[1]
            while isinstance(t, tuple) and t and t[0] == "field":
                t = t[1]
            if isinstance(t, tuple) and t and t[0] == "call":
                nm0 = t[1].split("::")[-1]
                inner = t[2][0] if t[2] else None
                while isinstance(inner, tuple) and inner and inner[0] == "sym" and inner[1][0] == "call":
                    nm0 = inner[1][1].split("::")[-1] + "." + nm0
                    inner = inner[1][2][0] if inner[1][2] else None
                    if nm0.count(".") > 3:
                        break
                var0 = explore.BUILTIN_DISCR.get(k[2], {}).get(c[1])
                if var0 is not None:
                    out.add("%s=%s" % (nm0, var0))
                continue
        if k[0] == "discr" and c[0] == "eq" and isinstance(k[1], tuple) and k[1] and k[1][0] in ("init", "arg", "field"):
            t = k[1]
            if t[0] == "field":
                root = t
                while isinstance(root, tuple) and root and root[0] == "field":
                    root = root[1]
                if not (isinstance(root, tuple) and root and root[0] in ("init", "arg")) or not isinstance(t[2], str):
                    continue
                nm = t[2]
            elif t[0] == "init":
                names = [str(el[2]) for el in t[2] if el[0] == "f" and len(el) > 2 and el[2] is not None]
                nm = names[-1] if names else (str(t[1][1]) if t[1][0] == "arg" else str(t[1][0]))
            else:
                nm = str(t[1])
            var = None
            try:
                for v in F.adt(k[2])["variants"]:
                    if v.get("discr") == c[1]:
                        var = v["name"]
            except Exception:
                var = None
            if var is not None:
                out.add("%s=%s" % (nm, var))
    return ";".join(sorted(out))


def short_fn(p):
    return p.replace("mqtt::packet::", "").replace("mqtt::connection::core::GenericConnection::<Role, PacketIdType>::", "GC::").replace("mqtt::", "")


def ent(facts, q, lin):
    """Entailment with the definitional facts of min / saturating_sub results added."""
    return linear.entails(facts + linear.aux_facts(lin, facts + [q]), q)


def discharge_assert(kind, op, ops, tys, lin, iv, get_facts):
    if kind == "bounds" and len(ops) == 2:
        ln, ix = ops
        q = linear.lin_add(linear.lin_add(lin.of_value(ix), lin.of_value(ln), -1), linear.const(1))   # ix + 1 - len <= 0
        if ln[0] == "sym" and ln[1][0] == "len":
            q = linear.lin_add(linear.lin_add(lin.of_value(ix), lin.len_of(ln[1][1]), -1), linear.const(1))
        if ent(get_facts(), q, lin):
            return True, "D2 index < len from path facts"
        return False, "index < len not proved"
    if kind == "overflow" and len(ops) == 2:
        ty = tys[0] if tys else None
        lo, hi = type_range(ty)
        a = iv.of(ops[0], ty)
        b = iv.of(ops[1], ty)
        if op == "Add" and a[1] is not None and b[1] is not None and a[1] + b[1] <= hi:
            return True, "D3 interval: %s + %s <= %s::MAX" % (a[1], b[1], ty)
        if op == "Add":
            fs0 = get_facts()
            for z in (ops[1], ops[0]):
                if ent(fs0, lin.of_value(z), lin):
                    return True, "D2z: one operand is zero on this path (x <= 0 for an unsigned x)"
        if op == "Add":
            # D2s: b <= L.saturating_sub(a)  =>  a + b <= max(a, L): cannot overflow the common type (when a > L the
            # difference is 0, so b is 0) - the cursor idiom `pos += n` after `n <= len.saturating_sub(pos)`
            fs = get_facts()
            la, lb = lin.of_value(ops[0]), lin.of_value(ops[1])
            cands = set()
            for f_ in fs + [lb, la] + linear.aux_facts(lin, fs + [lb, la]):
                for at in f_[0]:
                    if isinstance(at, tuple) and at and at[0] == "call" and at[1].split("::")[-1] == "saturating_sub" and len(at) > 2:
                        cands.add(at)
            for at in sorted(cands, key=repr)[:8]:
                args_ = [x for x in at[2] if not (isinstance(x, tuple) and x and x[0] == "targs")]
                if len(args_) != 2:
                    continue
                for (x_, y_) in ((la, lb), (lb, la)):
                    if lin.of_value(args_[1]) == x_ and ent(fs, linear.lin_add(y_, linear.atom(at), -1), lin):
                        return True, "D2s: the addend is at most L.saturating_sub(base), so base + addend <= max(base, L)"
        if op == "Add" and hi is not None and hi >= A_MEM:
            # D2m: the sum is bounded by the length of an in-memory sequence (a + b <= len(x) from the path facts; A-MEM)
            fs = get_facts()
            sm = linear.lin_add(lin.of_value(ops[0]), lin.of_value(ops[1]))
            lens = set()
            for f_ in fs:
                for at in f_[0]:
                    if isinstance(at, tuple) and at and at[0] == "len":
                        lens.add(at)
            for at in sorted(lens, key=repr)[:8]:
                if ent(fs, linear.lin_add(sm, linear.atom(at), -1), lin):
                    return True, "D2m: a + b <= len(..) from path facts, lengths are below 2^56 (A-MEM)"
        if op == "Mul" and a[1] is not None and b[1] is not None and a[1] * b[1] <= hi:
            return True, "D3 interval: %s * %s <= %s::MAX" % (a[1], b[1], ty)
        if op == "Mul" and hi is not None:
            # D2i: a constant factor times a value the path facts bound (k * i with i < len(..) <= n)
            for (kc, other) in ((a, ops[1]), (b, ops[0])):
                if kc[0] is not None and kc[0] == kc[1] and kc[0] > 0:
                    if ent(get_facts(), linear.lin_add(lin.of_value(other), linear.const(hi // kc[0]), -1), lin):
                        return True, "D2i: %d * x with x <= %s::MAX / %d from path facts" % (kc[0], ty, kc[0])
        if op == "Sub":
            q = linear.lin_add(lin.of_value(ops[1]), lin.of_value(ops[0]), -1)      # b - a <= 0
            if ent(get_facts(), q, lin):
                return True, "D2 a >= b from path facts"
            return False, "a >= b not proved for subtraction"
        if op in ("Shl", "Shr") and hi is not None:
            # the MIR assert of a shift checks the amount against the bit width of the left operand only
            b2 = iv.of(ops[1], tys[1] if len(tys) > 1 else None)
            bits = hi.bit_length() if lo == 0 else hi.bit_length() + 1
            if b2[1] is not None and b2[1] < bits:
                return True, "D3 interval: shift amount <= %s < %d bits" % (b2[1], bits)
            # D2i: the amount is k * x + c with x bounded by the path facts (7 * i, i the index of one of at most 4 bytes)
            la = lin.of_value(ops[1])
            if len(la[0]) == 1:
                (at, kc), = la[0].items()
                if kc > 0 and (bits - 1 - la[1]) >= 0:
                    bound = (bits - 1 - la[1]) // kc
                    if ent(get_facts(), linear.lin_add(linear.atom(at), linear.const(bound), -1), lin):
                        return True, "D2i: shift amount %d * x + %d with x <= %d from path facts: < %d bits" % (kc, la[1], bound, bits)
        return False, "no bound for %s (%s, %s) in %s" % (op, a, b, ty)
    if kind in ("div_zero", "rem_zero") and ops:
        d = iv.of(ops[0], tys[0] if tys else None)
        if d[0] is not None and d[0] > 0:
            return True, "divisor > 0"
        return False, "divisor may be zero"
    return False, "unrecognised assert kind"


def discharge_conversion(v, lin, expand, get_facts):
    """slice.try_into::<[u8; N]>().unwrap() is total when len(slice) == N on the path."""
    v = expand(v)
    if v[0] != "sym" or v[1][0] != "call" or not v[1][1].endswith("try_into"):
        return False, None
    args = v[1][2]
    targs = [a for a in args if isinstance(a, tuple) and a and a[0] == "targs"]
    vals = [a for a in args if not (isinstance(a, tuple) and a and a[0] == "targs")]
    if not targs or not vals:
        return False, None
    m = None
    for t in targs[0][1]:
        mm = re.match(r"^\[u8; (\d+)\]$", t)
        if mm:
            m = int(mm.group(1))
    if m is None:
        return False, None
    ln = lin.len_of(vals[0])
    f = get_facts()
    ok = linear.entails(f, linear.lin_add(ln, linear.const(m), -1)) and linear.entails(f, linear.lin_add(linear.const(m), ln, -1))
    return ok, "len(slice) == %d proved (D2): conversion to [u8; %d] cannot fail" % (m, m)


def eval_term(v, env):
    """Integer value of a term under an assignment of the payload bytes (env: index -> int); None when not evaluable."""
    if not isinstance(v, tuple) or not v:
        return None
    k = v[0]
    if k == "c":
        return v[1] if isinstance(v[1], int) else None
    if k == "sym":
        return eval_term(v[1], env)
    if k == "bin":
        a, b = eval_term(v[2], env), eval_term(v[3], env)
        if a is None or b is None:
            return None
        op = v[1].replace("WithOverflow", "").replace("Unchecked", "")
        try:
            return {"Add": a + b, "Sub": a - b, "Mul": a * b, "BitOr": a | b, "BitAnd": a & b, "BitXor": a ^ b,
                    "Shl": a << b if 0 <= b < 128 else None, "Shr": a >> b if 0 <= b < 128 else None}.get(op)
        except (TypeError, ValueError):
            return None
    if k == "field" and v[2] == 0 and isinstance(v[1], tuple) and v[1] and v[1][0] == "bin":
        return eval_term(v[1], env)
    if k == "cast":
        a = eval_term(v[1], env)
        r = explore.int_range(v[2]) if a is not None else None
        return (a & r[1]) if (a is not None and r and r[0] == 0 and r[1] is not None) else a
    if k == "into":
        return eval_term(v[1], env)
    if k == "index" and len(v) > 2 and isinstance(v[2], int) and is_self_payload(("sym", v[1]) if not (isinstance(v[1], tuple) and v[1] and v[1][0] == "sym") else v[1]):
        return env.get(v[2])
    if k == "call" and v[2]:
        nm = v[1].split("::")[-1]
        if nm in ("from_be_bytes", "from_le_bytes"):
            a0 = v[2][0]
            els = a0[1] if (isinstance(a0, tuple) and a0 and a0[0] == "arr") else None
            if els is None:
                return None
            bs = [eval_term(x, env) for x in els]
            if any(b is None for b in bs):
                return None
            return int.from_bytes(bytes(b & 0xFF for b in bs), "big" if nm == "from_be_bytes" else "little")
        if nm in ("into", "from") and len([x for x in v[2] if not (isinstance(x, tuple) and x and x[0] == "targs")]) == 1:
            return eval_term(v[2][0], env)
    return None


def is_self_payload(v):
    """The payload of `self` (field 0 of the variant the method matched on), possibly behind a deref."""
    t = v[1] if (isinstance(v, tuple) and v and v[0] == "sym") else v
    if isinstance(t, tuple) and len(t) == 3 and t[0] == "init" and isinstance(t[1], tuple) and t[1] and t[1][0] == "D" and t[2] == ():
        t = t[1][1]            # what a returned reference points to
    for _ in range(3):
        if isinstance(t, tuple) and t and t[0] == "call" and t[2] and t[1].split("::")[-1] in ("deref", "as_ref", "as_slice", "borrow"):
            a0 = t[2][0]
            t = a0[1] if (isinstance(a0, tuple) and a0 and a0[0] == "sym") else a0
    if isinstance(t, tuple) and len(t) == 3 and t[0] == "field" and t[2] == 0 and t[1] == ("init", ("self",), ()):
        return True
    # the encoded bytes of `self` through its own accessor (`self.as_bytes()[2..]`): the same bytes, the same invariant
    return isinstance(t, tuple) and len(t) == 3 and t[0] == "call" and t[1].split("::")[-1] == "as_bytes" and len(t[2]) == 1 \
        and t[2][0] in (("sym", ("init", ("self",), ())), ("init", ("self",), ()))


def payload_shape(e, expand):
    """For an index into the byte payload of `self`: the range written over P = the big-endian value of the payload's first
    two bytes (whatever the spelling of that decoding): '2..2+P', '..2+P', '2..', '..P' ...  None when the base is not
    the payload or a bound is not an affine function of P."""
    if len(e[3]) < 2 or not is_self_payload(expand(e[3][0])):
        return None
    rng = expand(e[3][1])

    def bound(v):
        v1 = eval_term(v, {0: 1, 1: 2})       # P = 258
        v2 = eval_term(v, {0: 0, 1: 7})       # P = 7
        v3 = eval_term(v, {0: 3, 1: 0})       # P = 768
        if v1 is None or v2 is None or v3 is None:
            return None
        for kq in (0, 1):
            c = v2 - 7 * kq
            if v1 == c + 258 * kq and v3 == c + 768 * kq:
                return ("%d+P" % c if c else "P") if kq else str(c)
        return None
    if rng[0] == "agg" and rng[2] in ("Range", "RangeTo", "RangeFrom", "RangeToInclusive"):
        bs = [bound(x) for x in rng[3]]
        if any(b is None for b in bs):
            return None
        return {"Range": "%s..%s", "RangeTo": "..%s", "RangeFrom": "%s..", "RangeToInclusive": "..=%s"}[rng[2]] % tuple(bs)
    b = bound(rng)
    return b


def index_desc(e, expand):
    rng = expand(e[3][1]) if len(e[3]) > 1 else None
    if rng and rng[0] == "agg":
        return "index[%s]" % rng[2]
    return "index[usize]"


def discharge_index(e, lin, expand, get_facts):
    base = e[3][0]
    rng = expand(e[3][1]) if len(e[3]) > 1 else None
    ln = lin.len_of(base)
    if rng is None:
        return False, "no range"
    f = get_facts()
    if rng[0] == "agg" and rng[2] == "RangeFrom":
        s = lin.of_value(rng[3][0])
        ok = ent(f, linear.lin_add(s, ln, -1), lin)
        return ok, "start <= len " + ("proved (D2)" if ok else "not proved")
    if rng[0] == "agg" and rng[2] == "Range":
        s = lin.of_value(rng[3][0])
        en = lin.of_value(rng[3][1])
        ok1 = ent(f, linear.lin_add(s, en, -1), lin)
        ok2 = ent(f, linear.lin_add(en, ln, -1), lin)
        return ok1 and ok2, "start <= end %s, end <= len %s" % ("ok" if ok1 else "NOT proved", "ok" if ok2 else "NOT proved")
    if rng[0] == "agg" and rng[2] == "RangeTo":
        en = lin.of_value(rng[3][0])
        ok = ent(f, linear.lin_add(en, ln, -1), lin)
        return ok, "end <= len " + ("proved (D2)" if ok else "not proved")
    if rng[0] == "agg" and rng[2] == "RangeFull":
        return True, "full range"
    # plain usize index
    ix = lin.of_value(rng)
    ok = ent(f, linear.lin_add(linear.lin_add(ix, ln, -1), linear.const(1)), lin)
    return ok, "index < len " + ("proved (D2)" if ok else "not proved")
