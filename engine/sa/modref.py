"""A5 - abstract post-values and reset-equivalence.

norm() maps an abstract value (from the explorer) to a small normal form:
  ('CONST', n) | ('NONE',) | ('VARIANT', adt, name) | ('EMPTY',)  (std container just created / cleared / drained)
  | ('NEW', S)  (in-crate struct S in the state its own new() establishes)
  | ('FIELD', name) (entry value of a field of the receiver) | ('ARG', name) | ('OP', callee, base, args) | ('CALL', ..) | ('UNKNOWN', ..)
reset_equiv(F, method) proves, by the same analysis applied to the method's own struct, that a
clear()/reset() method leaves every field equal to what new() establishes.
"""
import conn
import explore

STD_CTORS = ("::new", "::default", "::with_capacity")
STD_EMPTYING = ("::clear", "::drain")


class Norm:
    def __init__(self, F, interned=None):
        self.F = F
        self.interned = interned or {}
        self._re = {}

    def expand(self, t):
        while isinstance(t, tuple) and len(t) == 2 and t[0] == "#":
            t = self.interned.get(t[1], ("?",))
        return t

    def is_local_struct_ctor(self, path):
        f = self.F.fns.get(path)
        if f is None or f.get("name") != "new":
            return None
        s = f.get("impl_self")
        return s

    def norm(self, v, depth=0):
        v = self.expand(v)
        if depth > 8 or not isinstance(v, tuple) or not v:
            return ("UNKNOWN", "deep")
        k = v[0]
        if k == "c":
            return ("CONST", v[1])
        if k == "unit":
            return ("UNIT",)
        if k == "agg":
            if v[1] == "std::option::Option" and v[2] == "None":
                return ("NONE",)
            if not v[3]:
                return ("VARIANT", v[1], v[2])
            return ("AGG", v[1], v[2], tuple(self.norm(x, depth + 1) for x in v[3]))
        if k == "vec":
            return ("EMPTY",) if not v[1] else ("UNKNOWN", "vec")
        if k == "sym":
            return self.norm_term(v[1], depth)
        if k in ("tup", "arr"):
            return (k.upper(), tuple(self.norm(x, depth + 1) for x in v[1]))
        return ("UNKNOWN", k)

    def norm_term(self, t, depth):
        t = self.expand(t)
        k = t[0]
        if k == "init":
            root, path = t[1], t[2]
            if root == ("self",) and len(path) == 1 and path[0][0] == "f":
                return ("FIELD", path[0][2])
            return ("UNKNOWN", "init")
        if k == "arg":
            return ("ARG", t[1])
        if k == "call":
            path = t[1]
            args = t[2]
            if path in self.F.fns:
                s = self.is_local_struct_ctor(path)
                if s:
                    return ("NEW", s.split("<")[0])
                return ("CALL", path.split("::")[-1], tuple(self.norm(a, depth + 1) for a in args if not (isinstance(a, tuple) and a and a[0] == "targs")))
            if path.endswith(STD_CTORS) or "::default::Default::default" in path:
                return ("EMPTY",)
            return ("CALL", path.split("::")[-1], tuple(self.norm(a, depth + 1) for a in args if not (isinstance(a, tuple) and a and a[0] == "targs")))
        if k == "mut":
            callee = t[1][0]
            old = t[3]
            args = t[5] if len(t) > 5 else ()
            if callee in self.F.fns:
                if self.reset_equiv(callee):
                    s = self.F.fns[callee].get("impl_self", "?")
                    return ("NEW", s.split("<")[0])
                return ("OP", callee.split("::")[-1], self.norm(old, depth + 1), tuple(self.norm(a, depth + 1) for a in args))
            if callee.endswith(STD_EMPTYING):
                return ("EMPTY",)
            return ("OP", callee.split("::")[-1], self.norm(old, depth + 1), tuple(self.norm(a, depth + 1) for a in args))
        if k == "cast":
            return ("CAST", self.norm(t[1], depth + 1), t[2])
        if k == "bin":
            return ("BIN", t[1], self.norm(t[2], depth + 1), self.norm(t[3], depth + 1))
        if k == "field":
            return ("PROJ", self.norm(("sym", t[1]), depth + 1), t[2])
        return ("UNKNOWN", k)

    # ------------------------------------------------------------ reset-equivalence
    def struct_of(self, method_path):
        f = self.F.fns[method_path]
        s = f.get("impl_self", "").split("<")[0]
        return s if s in self.F.adts else None

    def new_values(self, struct_path):
        """Normalised value of each field right after the struct's own new(), with ctor params renamed
        to the field they initialise.  None if there is no single struct-literal new()."""
        cands = [f for f in self.F.fns.values() if f.get("name") == "new" and f.get("impl_self", "").split("<")[0] == struct_path
                 and not f.get("impl_trait")]
        if len(cands) != 1:
            return None
        res = conn.paths(self.F, cands[0]["path"])
        sub = Norm(self.F, res["interned"])
        vals = None
        for p in res["paths"]:
            if p.kind != "return":
                continue
            r = p.ret
            if not (r and r[0] == "agg" and r[1] == struct_path):
                return None
            a = self.F.adts[struct_path]
            fields = a["variants"][0]["fields"]
            cur = {}
            for fd in fields:
                cur[fd["name"]] = sub.norm(r[3][fd["i"]])
            # param -> field renaming
            ren = {}
            for n, v in cur.items():
                if v[0] == "ARG":
                    ren[v[1]] = n

            def rn(x):
                if isinstance(x, tuple):
                    if x and x[0] == "ARG" and x[1] in ren:
                        return ("FIELD", ren[x[1]])
                    return tuple(rn(y) for y in x)
                return x
            cur = {n: rn(v) for n, v in cur.items()}
            if vals is None:
                vals = cur
            elif vals != cur:
                return None
        return vals

    def post_values(self, method_path):
        """Per return path: dict field -> normalised final value (fields not written: ('FIELD', name))."""
        res = conn.paths(self.F, method_path)
        sub = Norm(self.F, res["interned"])
        sub._re = self._re
        out = []
        st = self.struct_of(method_path)
        fields = [fd["name"] for fd in self.F.adts[st]["variants"][0]["fields"]] if st else []
        for p in res["paths"]:
            if p.kind != "return":
                continue
            cur = {n: ("FIELD", n) for n in fields}
            for e in p.effects:
                if e[0] == "write" and e[1] == ("self",) and e[2] and e[2][0][0] == "f":
                    n = e[2][0][2]
                    if len(e[2]) == 1:
                        cur[n] = sub.norm(e[3])
                    else:
                        cur[n] = ("UNKNOWN", "partial-write")
            # conditional resets (`if flag { flag = false }`): an unwritten field whose entry value the
            # path constrains to a constant has that constant as its post-value
            for k, c in p.cons.items():
                if k[0] == "init" and k[1] == ("self",) and len(k[2]) == 1 and k[2][0][0] == "f" and c[0] == "eq":
                    n = k[2][0][2]
                    if cur.get(n) == ("FIELD", n):
                        cur[n] = ("CONST", c[1])
            out.append((p, cur))
        return out

    def reset_equiv(self, method_path):
        if method_path in self._re:
            return self._re[method_path]
        self._re[method_path] = False  # recursion guard
        st = self.struct_of(method_path)
        ok = False
        why = None
        if st:
            nv = self.new_values(st)
            if nv is not None:
                ok = True
                for p, cur in self.post_values(method_path):
                    for n, v in cur.items():
                        if v == nv[n]:
                            continue
                        why = (n, v, nv[n])
                        ok = False
                if not self.post_values(method_path):
                    ok = False
        self._re[method_path] = ok
        self._re[("why", method_path)] = why
        return ok
