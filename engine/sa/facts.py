"""Fact extraction orchestration and loading.

Every check invocation recomputes the content hash of /repo's current working
tree (src/**, Cargo.toml, Cargo.lock, feature set); a cached fact file is used
only when that hash matches, otherwise the rustc_private driver is re-run over
/repo itself (target dir outside /repo).  Nothing is ever written inside /repo.
"""
import fcntl
import hashlib
import json
import re
import os
import subprocess
import sys
import time
import uuid

VERIF = os.path.dirname(os.path.dirname(os.path.dirname(os.path.abspath(__file__))))
REPO = os.environ.get("VERIF_REPO", "/repo")
CACHE = os.path.join(VERIF, ".cache")
DRIVER = os.path.join(VERIF, "engine", "driver", "target", "release", "mqtt-facts")

# feature configurations (name -> cargo args)
CONFIGS = {
    "default": [],
    "std-tracing": ["--features", "std,tracing"],
    "nostd": ["--no-default-features"],
    "nostd-tracing": ["--no-default-features", "--features", "tracing"],
    "sso-min-32bit": ["--features", "sso-min-32bit"],
    "sso-min-64bit": ["--features", "sso-min-64bit"],
    "sso-lv10": ["--features", "sso-lv10"],
    "sso-lv20": ["--features", "sso-lv20"],
}
THOROUGH_CONFIGS = ["default", "std-tracing", "nostd", "nostd-tracing", "sso-min-32bit", "sso-lv20"]


class FactError(Exception):
    pass


def tree_hash(cfg):
    h = hashlib.sha256()
    h.update(cfg.encode())
    paths = []
    for root, dirs, files in os.walk(os.path.join(REPO, "src")):
        dirs.sort()
        for f in sorted(files):
            paths.append(os.path.join(root, f))
    for extra in ("Cargo.toml", "Cargo.lock"):
        p = os.path.join(REPO, extra)
        if os.path.exists(p):
            paths.append(p)
    # the driver binary is part of the key: a rebuilt driver invalidates facts
    if os.path.exists(DRIVER):
        paths.append(DRIVER)
    for p in paths:
        h.update(p.encode())
        with open(p, "rb") as fh:
            h.update(hashlib.sha256(fh.read()).digest())
    return h.hexdigest()[:24]


def sysroot():
    return subprocess.check_output(["rustc", "+nightly", "--print", "sysroot"], text=True).strip()


def ensure_driver():
    if os.path.exists(DRIVER):
        return
    d = os.path.join(VERIF, "engine", "driver")
    env = dict(os.environ, CARGO_NET_OFFLINE="true")
    r = subprocess.run(["cargo", "+nightly", "build", "--release", "--offline"], cwd=d, env=env,
                       stdout=subprocess.PIPE, stderr=subprocess.STDOUT, text=True)
    if r.returncode != 0 or not os.path.exists(DRIVER):
        raise FactError("driver build failed:\n" + r.stdout[-4000:])


def _lock_hash():
    p = os.path.join(REPO, "Cargo.lock")
    if not os.path.exists(p):
        return None
    return hashlib.sha256(open(p, "rb").read()).hexdigest()


def extract(cfg="default", quiet=True):
    """Return path of a fact file for /repo's current tree under feature config cfg."""
    os.makedirs(os.path.join(CACHE, "facts"), exist_ok=True)
    ensure_driver()
    key = tree_hash(cfg)
    out = os.path.join(CACHE, "facts", "%s-%s.json" % (cfg, key))
    if os.path.exists(out) and os.path.getsize(out) > 1000:
        return out
    lockf = open(os.path.join(CACHE, "extract-%s.lock" % cfg), "w")
    fcntl.flock(lockf, fcntl.LOCK_EX)
    try:
        if os.path.exists(out) and os.path.getsize(out) > 1000:
            return out
        tdir = os.path.join(CACHE, "target", cfg)
        os.makedirs(tdir, exist_ok=True)
        # force cargo to re-run the wrapper for the crate itself
        fp = os.path.join(tdir, "debug", ".fingerprint")
        if os.path.isdir(fp):
            for n in os.listdir(fp):
                if n.startswith("mqtt-protocol-core-"):
                    subprocess.run(["rm", "-rf", os.path.join(fp, n)])
        nonce = uuid.uuid4().hex
        tmp = out + "." + nonce + ".tmp"
        env = dict(os.environ)
        env.update({
            "CARGO_NET_OFFLINE": "true",
            "LD_LIBRARY_PATH": sysroot() + "/lib",
            "RUSTFLAGS": "-Zmir-opt-level=0 -Awarnings",
            "RUSTC_WORKSPACE_WRAPPER": DRIVER,
            "MQTT_FACTS_OUT": tmp,
            "MQTT_FACTS_NONCE": nonce,
            "CARGO_TARGET_DIR": tdir,
        })
        env.pop("RUSTC_WRAPPER", None)
        before = _lock_hash()
        t0 = time.time()
        r = subprocess.run(["cargo", "+nightly", "check", "--offline", "--lib"] + CONFIGS[cfg],
                           cwd=REPO, env=env, stdout=subprocess.PIPE, stderr=subprocess.STDOUT, text=True)
        if r.returncode != 0:
            if os.path.exists(tmp):
                os.unlink(tmp)
            raise FactError("cargo check of /repo failed (cfg=%s):\n%s" % (cfg, r.stdout[-6000:]))
        if _lock_hash() != before:
            raise FactError("Cargo.lock of /repo changed during extraction")
        if not os.path.exists(tmp):
            raise FactError("driver produced no fact file (cfg=%s); cargo output:\n%s" % (cfg, r.stdout[-3000:]))
        with open(tmp) as fh:
            head = fh.read(200)
        if nonce not in head:
            raise FactError("stale fact file (nonce mismatch)")
        os.replace(tmp, out)
        # keep the cache small: drop older fact files of the same cfg
        fdir = os.path.join(CACHE, "facts")
        olds = sorted((os.path.getmtime(os.path.join(fdir, n)), n) for n in os.listdir(fdir)
                      if n.startswith(cfg + "-") and n.endswith(".json"))
        for _, n in olds[:-4]:
            try:
                os.unlink(os.path.join(fdir, n))
            except OSError:
                pass
        if not quiet:
            print("extracted facts cfg=%s in %.1fs" % (cfg, time.time() - t0), file=sys.stderr)
        return out
    finally:
        fcntl.flock(lockf, fcntl.LOCK_UN)
        lockf.close()


_STD_NORM = re.compile(r"(?<![\w:])(core|alloc)::")


class Facts:
    def __init__(self, path, cfg):
        self.path = path
        self.cfg = cfg
        with open(path) as fh:
            txt = fh.read()
        # one spelling for the standard library whatever the feature set: rustc prints `alloc::vec::Vec` / `core::option::Option`
        # in no_std builds and `std::vec::Vec` / `std::option::Option` (but still `core::slice::<impl [T]>`) with std linked
        txt = _STD_NORM.sub("std::", txt)
        d = json.loads(txt)
        del txt
        self.raw = d
        if d.get("stolen", 0) != 0:
            raise FactError("mir_built was stolen for %d bodies" % d["stolen"])
        self.nonce = d["nonce"]
        self.adts = {a["path"]: a for a in d["adts"]}
        self.impls = d["impls"]
        self.traits = {t["path"]: t for t in d["traits"]}
        self.fns = {}
        for f in d["fns"]:
            if f["path"] in self.fns:
                raise FactError("duplicate body key " + f["path"])
            self.fns[f["path"]] = f
        self.hash = os.path.basename(path).split("-")[-1].split(".")[0]

    # -- lookups -------------------------------------------------------------
    def adt(self, path):
        a = self.adts.get(path)
        if a is None:
            raise FactError("missing ADT anchor " + path)
        return a

    def adt_by_suffix(self, suffix):
        c = [a for p, a in self.adts.items() if p == suffix or p.endswith("::" + suffix)]
        if len(c) != 1:
            raise FactError("ADT anchor %s: %d candidates" % (suffix, len(c)))
        return c[0]

    def fn(self, path):
        f = self.fns.get(path)
        if f is None:
            raise FactError("missing function anchor " + path)
        return f

    def fns_matching(self, pred):
        return [f for f in self.fns.values() if pred(f)]

    def variants(self, adt_path):
        return {v["name"]: v for v in self.adt(adt_path)["variants"]}

    def discr_map(self, adt_path):
        return {v["name"]: v.get("discr") for v in self.adt(adt_path)["variants"]}

    def variant_by_idx(self, adt_path, idx):
        for v in self.adt(adt_path)["variants"]:
            if v["idx"] == idx:
                return v
        raise FactError("no variant %d in %s" % (idx, adt_path))

    def variant_by_discr(self, adt_path, d):
        for v in self.adt(adt_path)["variants"]:
            if v.get("discr") == d:
                return v
        return None

    def impls_of(self, trait):
        return [i for i in self.impls if i.get("trait") == trait]


_loaded = {}


def load(cfg="default"):
    p = extract(cfg)
    if p not in _loaded:
        _loaded[p] = Facts(p, cfg)
    return _loaded[p]
