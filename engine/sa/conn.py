"""Connection-layer helpers shared by the rule modules: anchors discovered from the
facts, cached abstract-path sets per handler, pretty-printers for replay files."""
import os
import pickle
import re

import explore
from facts import CACHE, FactError

GC_ADT = "mqtt::connection::core::GenericConnection"
GC = "mqtt::connection::core::GenericConnection::<Role, PacketIdType>::"
EVENT = "mqtt::connection::event::GenericEvent"
STATUS = "mqtt::connection::core::ConnectionStatus"
VERSION = "mqtt::connection::version::Version"
TIMERKIND = "mqtt::connection::event::TimerKind"
MQTTERR = "mqtt::result_code::MqttError"

KINDS = ["connect", "connack", "publish", "puback", "pubrec", "pubrel", "pubcomp", "subscribe", "suback",
         "unsubscribe", "unsuback", "pingreq", "pingresp", "disconnect", "auth"]


def gc_fields(F):
    """Fields of the connection struct.  A field that only holds a private helper struct whose members are presented as
    virtual fields (facts.flatten_gc_structs) is not listed itself: its members are."""
    a = F.adt(GC_ADT)
    containers = {inf["name"] for inf in getattr(F, "flat_struct", {}).values()}
    return {f["name"]: f for f in a["variants"][0]["fields"] if f["name"] not in containers}


def gc_methods(F):
    return {f["name"]: f for f in F.fns.values()
            if f.get("impl_self", "").startswith(GC_ADT + "<") and f.get("kind") in ("AssocFn",) and "name" in f}


def handlers(F, prefix):
    """process_send_* / process_recv_* methods keyed by (version, kind)."""
    out = {}
    for name, f in gc_methods(F).items():
        m = re.match(r"^%s_(v3_1_1|v5_0)_(\w+)$" % prefix, name)
        if m:
            out[(m.group(1), m.group(2))] = f
    return out


_paths_cache = {}


STUBS = {
    "": None,
    "recv-handlers": lambda callee: callee.get("name", "").startswith("process_recv_v"),
    "ids": None,
    "allrc": None,
    "recv-packet": lambda callee: callee.get("name", "") == "process_recv_packet",
}


def _inline_ids(ex, callee, info):
    if explore.default_inline(ex, callee, info):
        return True
    s = callee.get("impl_self", "")
    return s.startswith("mqtt::connection::packet_id_manager::PacketIdManager<") or s.startswith("mqtt::common::value_allocator::ValueAllocator<")


INLINE = {"ids": _inline_ids}


def paths(F, fn_path, loop_k=1, closure_k=1, tag=""):
    """Abstract paths of a function (cached in-process and on disk, keyed by the fact hash)."""
    key = (F.hash, F.cfg, fn_path, loop_k, closure_k, tag)
    if key in _paths_cache:
        return _paths_cache[key]
    d = os.path.join(CACHE, "paths", "%s-%s-%s" % (F.cfg, F.hash, engine_salt()))
    os.makedirs(d, exist_ok=True)
    fname = os.path.join(d, re.sub(r"[^A-Za-z0-9_]+", "_", fn_path)[-120:] + "-%d-%d%s.pkl" % (loop_k, closure_k, tag))
    if os.path.exists(fname):
        try:
            with open(fname, "rb") as fh:
                ps = pickle.load(fh)
            _paths_cache[key] = ps
            return ps
        except Exception:
            pass
    ex = explore.Explorer(F, loop_k=loop_k, closure_k=closure_k, stub_pred=STUBS[tag], inline_pred=INLINE.get(tag))
    ps = ex.run(fn_path)
    res = {"paths": ps, "interned": ex.interned_rev, "opaque": sorted(ex.stats["opaque"]), "inlined": sorted(ex.stats["inlined"])}
    # the disk cache is an optimisation only: a concurrent run (another check, another tree) may prune the directory
    tmp = fname + ".%d.tmp" % os.getpid()
    try:
        os.makedirs(d, exist_ok=True)
        with open(tmp, "wb") as fh:
            pickle.dump(res, fh, protocol=pickle.HIGHEST_PROTOCOL)
        os.replace(tmp, fname)
    except OSError:
        try:
            os.unlink(tmp)
        except OSError:
            pass
    _paths_cache[key] = res
    return res


_salt = []


def engine_salt():
    """The abstract paths depend on the interpreter's source as well as on the facts."""
    if not _salt:
        import hashlib
        h = hashlib.sha256()
        here = os.path.dirname(os.path.abspath(__file__))
        for n in ("explore.py", "conn.py", "frame.py", "facts.py"):
            with open(os.path.join(here, n), "rb") as fh:
                h.update(fh.read())
        _salt.append(h.hexdigest()[:10])
    return _salt[0]


def prune_path_cache(F):
    base = os.path.join(CACHE, "paths")
    if not os.path.isdir(base):
        return
    keep = "%s-%s-%s" % (F.cfg, F.hash, engine_salt())
    import time
    try:
        ds = sorted((os.path.getmtime(os.path.join(base, n)), n) for n in os.listdir(base) if n.startswith(F.cfg + "-"))
    except OSError:
        return
    now = time.time()
    for mt, n in ds[:-3]:
        if n != keep and now - mt > 3600:          # never a directory another run may still be using
            import shutil
            shutil.rmtree(os.path.join(base, n), ignore_errors=True)


# ----------------------------------------------------------------- values
def is_event(v, variant=None):
    return isinstance(v, tuple) and v and v[0] == "agg" and v[1] == EVENT and (variant is None or v[2] == variant)


def ev_name(v):
    """Compact symbol of an abstract event."""
    if not is_event(v):
        if isinstance(v, tuple) and v and v[0] == "evs?":
            return "?"
        return "??"
    n = v[2]
    if n in ("RequestTimerReset", "RequestTimerCancel") and v[3]:
        k = v[3][0]
        return "%s(%s)" % (n, k[2] if k[0] == "agg" else "?")
    if n == "NotifyError" and v[3]:
        e = v[3][0]
        return "NotifyError(%s)" % (e[2] if e[0] == "agg" else "?")
    return n


def word(p):
    ev = p.events()
    if ev is None:
        return None
    return [ev_name(e) for e in ev]


def pel(x):
    if x[0] == "f":
        return str(x[2]) if len(x) > 2 and x[2] is not None else str(x[1])
    if len(x) > 1:
        return str(x[1])
    return str(x[0])


def short(v, d=0):
    if not isinstance(v, tuple):
        return str(v)
    if v and v[0] == "agg":
        return v[1].split("::")[-1] + "::" + v[2] + ("(" + ",".join(short(x, d + 1) for x in v[3]) + ")" if v[3] else "")
    if v and v[0] == "sym":
        return "$" + short(v[1], d + 1)
    if v and v[0] == "c":
        return str(v[1])
    if v and v[0] == "init" and len(v) == 3:
        return "%s.%s" % (v[1][0] if v[1] else "?", ".".join(pel(x) for x in v[2]))
    if v and v[0] == "call":
        return "%s(%s)" % (v[1].split("::")[-1], ",".join(short(x, d + 1) for x in v[2]) if d < 4 else "..")
    if d > 5:
        return ".."
    return "(" + ",".join(short(x, d + 1) for x in v) + ")"


def cons_list(p, limit=30):
    out = []
    for k, c in list(p.cons.items())[:limit]:
        out.append("%s %s %s" % (short(k), c[0], sorted(c[1]) if isinstance(c[1], frozenset) else c[1]))
    return out


def path_summary(p, limit=60):
    """Human-readable abstract path for replay files."""
    eff = []
    for e in p.effects:
        if e[0] == "call":
            eff.append("call %s(%s) @%s" % (e[1].split("::")[-1], ", ".join(short(x) for x in e[3]), e[5][1]))
        elif e[0] == "write":
            eff.append("write %s.%s = %s @%s" % (e[1][0], ".".join(pel(x) for x in e[2]), short(e[3]), e[4][1]))
        elif e[0] in ("enter", "exit"):
            eff.append("%s %s" % (e[0], e[1].split("::")[-1]))
        elif e[0] == "push":
            eff.append("push %s" % ev_name(e[2]))
    return {"kind": p.kind, "constraints": cons_list(p), "effects": eff[:limit], "events": word(p)}


def field_of_write(e):
    """Top-level self field name of a ('write', root, path, val, site) effect, or None."""
    if e[0] != "write" or e[1] != ("self",) or not e[2]:
        return None
    el = e[2][0]
    return el[2] if el[0] == "f" else None


def cons_on_field(p, field):
    """Constraint recorded on the initial value of self.<field> (enum discr or scalar), if any."""
    for k, c in p.cons.items():
        if k[0] == "discr" and k[1][0] == "init" and k[1][1] == ("self",) and len(k[1][2]) == 1 and k[1][2][0][2] == field:
            return ("discr", c, k[2])
        if k[0] == "init" and k[1] == ("self",) and len(k[2]) == 1 and k[2][0][2] == field:
            return ("val", c, None)
    return None


# ------------------------------------------------------- enum constraints
def enum_domain(F, adt):
    if adt in explore.BUILTIN_DISCR:
        return dict(explore.BUILTIN_DISCR[adt])
    a = F.adts.get(adt)
    if not a:
        raise FactError("unknown enum " + adt)
    return {v.get("discr", v["idx"]): v["name"] for v in a["variants"]}


def possible(F, p, term, adt):
    """Set of variant names the enum-valued term may have under the path's constraints."""
    dom = enum_domain(F, adt)
    c = p.cons.get(("discr", term, adt))
    if c is None:
        return set(dom.values())
    if c[0] == "eq":
        return {dom.get(c[1], "?%s" % c[1])}
    return {n for d, n in dom.items() if d not in c[1]}


def field_term(name, F=None):
    """Term of the entry value of self.<name>."""
    fs = gc_fields(F) if F is not None else None
    idx = fs[name]["i"] if fs else None
    return ("init", ("self",), (("f", idx, name),))


def status_at_entry(F, p):
    return possible(F, p, field_term("status", F), STATUS)


def version_at_entry(F, p):
    return possible(F, p, field_term("protocol_version", F), VERSION)


def bool_field_at_entry(F, p, name):
    """{True,False} subset possible for boolean field at entry."""
    t = field_term(name, F)
    c = p.cons.get(t)
    if c is None:
        return {True, False}
    if c[0] == "eq":
        return {c[1] == 1}
    return {b for b in (True, False) if (1 if b else 0) not in c[1]}


def call_terms(p, name_suffix):
    """All opaque call effects whose callee path ends with the given method name."""
    return [e for e in p.effects if e[0] == "call" and (e[1].endswith("::" + name_suffix) or e[1] == name_suffix)]


def sends(p):
    """Indices and packet values of RequestSendPacket events in the returned word."""
    ev = p.events() or ()
    return [(i, e) for i, e in enumerate(ev) if is_event(e, "RequestSendPacket")]


def packet_kind_of(v):
    """Best-effort packet type name of an abstract packet value (from `into`/builder provenance)."""
    s = repr(v)
    import re as _re
    m = _re.findall(r"mqtt::packet::(v3_1_1|v5_0)::(\w+)::", s)
    if m:
        return "%s::%s" % m[-1]
    return None


# ------------------------------------------------- conditional write summaries
# external container contracts: result value for which the call leaves the receiver unchanged
NOOP_RESULT = {
    "hashbrown::HashSet::<T, S, A>::insert": ("bool", 0),
    "hashbrown::HashSet::<T, S, A>::remove": ("bool", 0),
}
# removal from a map that returns None found nothing and changed nothing
NOOP_NONE = ("::shift_remove", "::swap_remove", "::remove", "::shift_remove_full", "::swap_remove_full", "::remove_entry", "::take", "::pop")
_wsum = {}


def write_summary(F, callee_path, _depth=0):
    """For an in-crate callee taking &mut self: the set of Option/Result variants of its return value
    for which *no* path writes through self (computed by exploring the callee itself)."""
    key = (F.hash, callee_path)
    if key in _wsum:
        return _wsum[key]
    out = set()
    if callee_path in F.fns:
        try:
            res = paths(F, callee_path)
        except Exception:
            res = None
        if res:
            by = {}
            for p in res["paths"]:
                if p.kind != "return":
                    continue
                if contradictory(p, res["interned"]):
                    continue          # e.g. `get_index(len - 1)` None after `get_index_of(k)` was Some
                v = p.ret
                var = v[2] if v and v[0] == "agg" else None
                wrote = bool(effective_writes(F, p, _depth + 1)) if _depth < 3 else any(e[0] == "write" and e[1] == ("self",) for e in p.effects)
                by.setdefault(var, []).append(wrote)
            out = {var for var, ws in by.items() if var is not None and not any(ws)}
            if None in by:
                out = set()  # some path returns an untracked value: no claim
    _wsum[key] = out
    return out


def effective_writes(F, p, _depth=0):
    """(field, how, effect) for every self-field write on the path that is not a provable no-op."""
    out = []
    for e in p.effects:
        fld = field_of_write(e)
        if fld is None:
            continue
        val = e[3]
        how = "assign"
        if val[0] == "sym" and val[1][0] == "mut":
            m = val[1]
            callee = m[1][0]
            how = callee.split("::")[-1]
            res = m[4] if len(m) > 4 else None
            if res is not None:
                nr = NOOP_RESULT.get(callee)
                if nr is not None:
                    c = p.cons.get(res)
                    if c is not None and c[0] == "eq" and c[1] == nr[1]:
                        continue
                elif callee not in F.fns and any(callee.endswith(x) for x in NOOP_NONE) and \
                        p.cons.get(("discr", res, "std::option::Option")) == ("eq", 0):      # discriminant 0 = None
                    continue
                else:
                    nov = write_summary(F, callee, _depth)
                    if nov:
                        done = False
                        for adt in ("std::option::Option", "std::result::Result"):
                            c = p.cons.get(("discr", res, adt))
                            if c is not None and c[0] == "eq":
                                var = explore.BUILTIN_DISCR[adt].get(c[1])
                                if var in nov:
                                    done = True
                        if done:
                            continue
        out.append((fld, how, e))
    return out


# ------------------------------------------------- evaluating path constraints
def feasible(p, env):
    """Is the path consistent with the partial assignment env (term -> int)?  Unassigned atoms are free."""
    def val_of(x):
        if x[0] == "c":
            return x[1]
        if x[0] == "sym" and x[1] in env:
            return env[x[1]]
        return None
    for k, c in p.cons.items():
        v = None
        if k in env:
            v = env[k]
        elif k[0] == "cmp":
            a, b = val_of(k[2]), val_of(k[3])
            if a is not None and b is not None:
                v = 1 if ((a == b) if k[1] == "Eq" else (a < b)) else 0
        elif k[0] == "enum_eq":
            pass
        if v is None:
            continue
        if c[0] == "eq":
            if c[1] != v:
                return False
        elif v in c[1]:
            return False
    return True


def role_consts(F):
    """RoleType associated consts per role type (evaluated by the compiler)."""
    out = {}
    tr = F.traits.get("mqtt::connection::role::RoleType")
    defaults = tr["consts"] if tr else {}
    for im in F.impls_of("mqtt::connection::role::RoleType"):
        c = dict(defaults)
        c.update({k: v for k, v in im["consts"].items() if v is not None})
        out[im["self"].split("::")[-1]] = c
    return out


def role_env(F, role):
    env = {}
    for k, v in role_consts(F)[role].items():
        env[("const", "<Role as mqtt::connection::role::RoleType>::%s" % k)] = v
    return env


def agg_field(F, v, name):
    """Field `name` of an abstract struct value (by the ADT's field table)."""
    if not (isinstance(v, tuple) and v and v[0] == "agg"):
        return None
    a = F.adts.get(v[1])
    if not a:
        return None
    for var in a["variants"]:
        if var["name"] == v[2]:
            for f in var["fields"]:
                if f["name"] == name and f["i"] < len(v[3]):
                    return v[3][f["i"]]
    return None


def wire_value(F, adt, variant):
    return F.discr_map(adt)[variant]


def expand_all(interned, t, depth=400):
    """Substitute interned sub-terms ('#', i) back (bounded depth) for inspection."""
    if not isinstance(t, tuple) or depth <= 0:
        return t
    if len(t) == 2 and t[0] == "#" and isinstance(t[1], int):
        return expand_all(interned, interned.get(t[1], t), depth - 1)
    return tuple(expand_all(interned, x, depth - 1) for x in t)


# ------------------------------------------------------------ path queries
def calls(p, suffix):
    return [(i, e) for i, e in enumerate(p.effects) if e[0] == "call" and e[1].endswith(suffix)]


def truth(p, call_effect):
    """Boolean result of an opaque call on this path (True/False/None)."""
    r = call_effect[4]
    if r[0] == "c":
        return r[1] != 0
    if r[0] != "sym":
        return None
    c = p.cons.get(r[1])
    if c is None and r[1][0] == "cmp" and r[1][1] == "Eq":
        c = p.cons.get(("cmp", "Eq", r[1][3], r[1][2]))
    if c is None:
        return None
    if c[0] == "eq":
        return c[1] == 1
    if 0 in c[1]:
        return True
    if 1 in c[1]:
        return False
    return None


def entered(p, name):
    return [i for i, e in enumerate(p.effects) if e[0] == "enter" and e[1].endswith("::" + name)]


def pushes(p, variant=None):
    return [(i, e[2]) for i, e in enumerate(p.effects) if e[0] == "push" and (variant is None or is_event(e[2], variant))]


def qos_of(F, p):
    qt = calls(p, "::qos")
    if not qt:
        return {"AtMostOnce", "AtLeastOnce", "ExactlyOnce"}
    return possible(F, p, qt[0][1][4][1], "mqtt::packet::qos::Qos")


def errors(p):
    return [x for x in (word(p) or []) if x.startswith("NotifyError(")]


# ----------------------------------------------------------------- relational queries (idiom-independent)
def lin_ctx(p, interned):
    """(Lin, facts) of a path: its comparison constraints as linear inequalities over unsigned atoms."""
    c = getattr(p, "_lin", None)
    if c is None:
        import linear
        lin = linear.Lin(lambda t: expand_all(interned, t))
        facts = lin.facts_of_cons(p.cons)
        facts = facts + linear.aux_facts(lin, facts)
        c = (lin, facts)
        try:
            p._lin = c
        except Exception:
            pass
    return c


def contradictory(p, interned):
    """Are the path's comparison constraints linearly inconsistent (an infeasible path the explorer could not prune)?
    Sound: True only when a non-negative combination of its facts yields 1 <= 0."""
    import linear
    import itertools
    lin, facts = lin_ctx(p, interned)

    def absurd(f):
        return f[1] >= 1 and all(v >= 0 for v in f[0].values())      # (non-negative atoms) sum >= 1, yet required <= 0
    fs = facts[:24]
    for k in (1, 2, 3):
        for sub in itertools.combinations(fs, k):
            tot = ({}, 0)
            for f in sub:
                tot = linear.lin_add(tot, f)
            if absurd(tot):
                return True
    return False


def decide(p, interned, a, op, b):
    """Truth of `a op b` (op in lt, le, eq; a, b abstract values) on the path, from its linear facts: True / False / None.
    `x > 0`, `x != 0`, `!(x == 0)`, `0 < x`, `x >= 1` all decide the same query."""
    import linear
    lin, facts = lin_ctx(p, interned)
    la, lb = lin.of_value(a), lin.of_value(b)
    lt = linear.lin_add(linear.lin_add(la, lb, -1), linear.const(1))      # a - b + 1 <= 0
    ge = linear.lin_add(lb, la, -1)                                       # b - a <= 0
    le = linear.lin_add(la, lb, -1)                                       # a - b <= 0
    gt = linear.lin_add(linear.lin_add(lb, la, -1), linear.const(1))      # b - a + 1 <= 0
    E = lambda q: linear.entails(facts, q)
    if op == "lt":
        return True if E(lt) else (False if E(ge) else None)
    if op == "le":
        return True if E(le) else (False if E(gt) else None)
    if op == "eq":
        if E(le) and E(ge):
            return True
        if E(lt) or E(gt):
            return False
        return None
    raise ValueError(op)


def calls_outside(p, name_suffix, window="process_send"):
    """Opaque calls to *name_suffix that are not made inside an inlined callee whose name starts with `window`
    (the handler's own work, including private helpers it delegates to, as opposed to a nested send handler's)."""
    out = []
    depth = 0
    stack = []
    for e in p.effects:
        if e[0] == "enter":
            w = e[1].split("::")[-1].startswith(window)
            stack.append(w)
            depth += 1 if w else 0
        elif e[0] == "exit":
            if stack:
                depth -= 1 if stack.pop() else 0
        elif e[0] == "call" and depth == 0 and (e[1].endswith(name_suffix)):
            out.append(e)
    return out


def own_effect_indices(p, nested=("process_send_", "send_stored")):
    """Indices of the effects that are the explored handler's own work: made in its body or in private helpers it delegates
    to, but not inside a nested send handler / send_stored (whose emissions are judged by their own rules)."""
    out = set()
    stack = []
    depth = 0
    for i, e in enumerate(p.effects):
        if e[0] == "enter":
            nm = e[1].split("::")[-1]
            w = any(nm.startswith(x) if x.endswith("_") else nm == x for x in nested)
            stack.append(w)
            depth += 1 if w else 0
        elif e[0] == "exit":
            if stack:
                depth -= 1 if stack.pop() else 0
        elif depth == 0:
            out.add(i)
    return out


# ----------------------------------------------------------------- who-may-write (helper-transitive)
def owner_name(g):
    """Function a body is attributed to: closures count as their enclosing function."""
    return (g.get("parent") or g["path"]).split("::")[-1] if g.get("kind") == "Closure" else g["path"].split("::")[-1]


def direct_writers(F, field, adt=None):
    """Names of functions that assign to / mutably borrow <adt>.<field>, or build the struct (reported as the builder's name)."""
    adt = adt or GC_ADT
    out = {}
    virt = None
    if adt == GC_ADT:
        for (i_, j_), (n_, nm_) in getattr(F, "flat", {}).items():
            if nm_ == field:
                virt = (i_, j_, F.flat_struct[i_]["adt"])
    if virt is not None:
        # a member of a private helper struct held by the connection: written as `self.<f>.<m>`, as `self.<m>` inside a
        # method of the helper type (attributed to the callers of that method), or by replacing the whole struct
        i_, j_, sadt = virt
        for g in F.fns.values():
            for b in g["blocks"]:
                for st in b["stmts"]:
                    if st["k"] != "assign":
                        continue
                    places = [st["lhs"]]
                    if st["rv"]["k"] == "ref" and st["rv"].get("mut"):
                        places.append(st["rv"]["place"])
                    if st["rv"]["k"] == "agg" and st["rv"].get("adt") == adt:
                        out.setdefault(owner_name(g), g)
                    for k_, pl in enumerate(places):
                        els = [el for el in pl["p"] if isinstance(el, dict)]
                        hit = any(el.get("a") == sadt and el.get("f") == j_ for el in els)
                        if not hit and k_ == 0:
                            # whole-struct replacement: `self.<f> = ..` or `*self = ..` inside a method of the helper type
                            if els and els[-1].get("a") == adt and els[-1].get("f") == i_ and pl["p"] and pl["p"][-1] is els[-1]:
                                hit = True
                            elif pl["p"] == ["*"] and g["locals"][pl["l"]].replace("&mut ", "").replace("&", "").split("<")[0] == sadt:
                                hit = True
                        if hit:
                            out.setdefault(owner_name(g), g)
        return out
    for g in F.fns.values():
        caps = [c.get("s", "") for c in g.get("captures", [])] if g.get("kind") == "Closure" else []
        for b in g["blocks"]:
            for st in b["stmts"]:
                if st["k"] != "assign":
                    continue
                places = [st["lhs"]]
                if st["rv"]["k"] == "ref" and st["rv"].get("mut"):
                    places.append(st["rv"]["place"])
                if st["rv"]["k"] == "agg" and st["rv"].get("adt") == adt:
                    out.setdefault(owner_name(g), g)
                for pl in places:
                    hit = any(isinstance(el, dict) and el.get("n") == field and el.get("a") == adt for el in pl["p"])
                    if not hit and caps:
                        for el in pl["p"]:
                            if isinstance(el, dict) and el.get("a") == "{closure}" and el.get("f", 1 << 30) < len(caps) and caps[el["f"]].endswith("." + field):
                                hit = True
                    if hit:
                        out.setdefault(owner_name(g), g)
    return out


_callers = {}


def callers_map(F):
    """callee function name -> set of caller names (both restricted to local functions; closures attributed to their parents)."""
    if F.hash not in _callers:
        m = {}
        for g in F.fns.values():
            for b in g["blocks"]:
                t = b["term"]
                if t["k"] == "call" and "fn" in t["func"].get("const", {}):
                    fi = t["func"]["const"]["fn"]
                    cp = (fi.get("res") or {}).get("path", fi["path"])
                    if cp in F.fns:
                        m.setdefault(cp, set()).add(g["path"] if g.get("kind") != "Closure" else g.get("parent", g["path"]))
        _callers[F.hash] = m
    return _callers[F.hash]


def offending_writers(F, field, allowed, adt=None):
    """Writers of the field outside `allowed`, where a private helper that is only ever called (transitively) from allowed
    functions is attributed to them: extracting a block of an allowed writer into a private function changes nothing."""
    direct = direct_writers(F, field, adt)
    cm = callers_map(F)
    bad = set()
    seen = set()
    via = set()          # allowed functions that write through a private helper
    work = [(n, g) for n, g in direct.items() if n not in allowed]
    while work:
        n, g = work.pop()
        if n in seen:
            continue
        seen.add(n)
        path = g["path"] if g.get("kind") != "Closure" else g.get("parent", g["path"])
        gg = F.fns.get(path, g)
        cs = cm.get(path, set())
        if gg.get("pub") or not cs:
            bad.add(n)
            continue
        for c in cs:
            cn = c.split("::")[-1]
            if cn in allowed:
                via.add(cn)
                continue
            if cn in seen:
                continue
            cg = F.fns.get(c)
            if cg is None:
                bad.add(n)
            else:
                work.append((cn, cg))
    return bad, set(direct) | via


def offending_callers(F, callee_paths, allowed):
    """Owners of call sites of the given functions that are neither in `allowed` nor private helpers reached (transitively)
    only from allowed functions.  Returns (offending owner names, allowed functions that do reach a call site)."""
    cm = callers_map(F)
    bad, via = set(), set()
    seen = set()
    work = []
    for cp in callee_paths:
        for c in cm.get(cp, set()):
            work.append(c)
    while work:
        c = work.pop()
        if c in seen:
            continue
        seen.add(c)
        cn = c.split("::")[-1]
        if cn in allowed:
            via.add(cn)
            continue
        g = F.fns.get(c)
        cs = cm.get(c, set())
        if g is None or g.get("pub") or not cs:
            bad.add(cn)
            continue
        work.extend(cs)
    return bad, via


def rc_possible(F, p, term, adt):
    """Variants a reason / return code value may have on the path: its discriminant constraints intersected with what the
    path learnt from `is_success()` / `is_failure()` on that value (success = wire value below 0x80; for the v3.1.1 CONNACK
    return code only 0 accepts)."""
    poss = set(possible(F, p, term, adt))
    dm = {n: d for n, d in F.discr_map(adt).items()}
    def success(n):
        d = dm.get(n)
        return (d == 0) if adt.endswith("ConnectReturnCode") else (d is not None and d < 0x80)
    for e in p.effects:
        if e[0] == "call" and e[1].split("::")[-1] in ("is_success", "is_failure") and e[3] and e[3][0] == ("sym", term):
            t = truth(p, e)
            if t is None:
                continue
            want_success = t if e[1].endswith("is_success") else (not t)
            poss = {n for n in poss if success(n) == want_success}
    return poss


def rc_failing(p):
    """Whether the path decided that a reason code is a failure code: True / False / None, from whichever predicate the
    code consulted (`is_failure()` or `!is_success()`); the first decided consultation counts."""
    for e in p.effects:
        if e[0] == "call" and e[1].split("::")[-1] in ("is_failure", "is_success"):
            t = truth(p, e)
            if t is None:
                continue
            return t if e[1].endswith("is_failure") else (not t)
    return None


# ----------------------------------------------------------------------------------------------------------------
# property-list validators: discovered by signature, followed through helpers and function pointers
PROP_TY = "mqtt::packet::property::Property"


def fn_refs(f):
    import facts
    return facts.fn_refs(f)


def is_prop_validator(f):
    """Terminal property validator (classified at fact load: facts.classify_validators)."""
    return bool(f.get("prop_validator"))


def validators_reached(F, starts, through=None):
    """Validators referenced from the start functions, directly or through private helpers / closures (never through
    another validator, never through public API).  Returns {validator path: chain of function names leading to it}."""
    import explore
    through = through or (lambda g: g.get("kind") == "Closure" or explore.small_private_helper(g))
    out = {}
    seen = set()
    work = [(s, (s.split("::")[-1],)) for s in starts]
    while work:
        p, chain = work.pop()
        if p in seen or p not in F.fns:
            continue
        seen.add(p)
        for r in sorted(fn_refs(F.fns[p])):
            g = F.fns.get(r)
            if g is None:
                continue
            if is_prop_validator(g):
                out.setdefault(r, chain)
            elif through(g) and len(chain) < 6:
                work.append((r, chain + (r.split("::")[-1],)))
    return out


def not_validator_inline(F):
    """Inlining policy for packet-layer explorations that must *see* validator calls: closures and small private helpers
    are followed, validators stay calls (also when reached through a function pointer)."""
    import explore
    return lambda ex, callee, info: (callee.get("kind") == "Closure" or explore.small_private_helper(callee)) and not is_prop_validator(callee)
