"""Length accounting of the packet builders (C02-R3 / C02-R4).

For every `XBuilder::build`, every accepting abstract path yields the packet value S as an aggregate of abstract field
values.  The serialiser `to_continuous_buffer` of that packet type is then explored with `self = S` (same constraint
store, same interned terms): on each of its paths the appended sources after the fixed header and the Remaining Length
are turned into a linear form  sum(size of source)  over position-free atoms

    SIZE(x)   encoded size of the value x (x.size(), x.len(), len of x.as_bytes() / as_slice() / to_continuous_buffer())
    IDLEN     size of a packet identifier (size_of::<PacketIdType>() == size_of::<Buffer>() == len(packet_id_buf))
    n         a [u8; n] field

and compared with the linear form of the argument of `VariableByteInteger::from_u32(..)` that `build` stored in
`remaining_length`.  Equality is decided by two linear entailments under the path's own facts (so `if payload.len() > 0`
around a source that is empty otherwise is understood).  A property-length field is checked the same way against the
property list emitted right after it.

What is decided: the *formula* build() uses for the Remaining Length (and property lengths) counts exactly the sources
the serialiser emits, for every optional-field combination the builder accepts.  What is not decided: the leaf
encoders themselves (that x.size() is the number of bytes x.to_continuous_buffer() returns) - C02-R1/R2 relate those.
"""
import re

import conn
import explore
import linear

# calls whose result has the same encoded size as their receiver (views of the same bytes, or its serialisation)
WRAPPERS = ("as_bytes", "as_slice", "as_ref", "deref", "borrow", "as_str", "clone", "as_mut", "deref_mut", "to_continuous_buffer", "to_buffers", "to_vec")
IDLEN = ("IDLEN",)


def builders(F):
    out = []
    for p in sorted(F.fns):
        m = re.match(r"^mqtt::packet::(v3_1_1|v5_0)::(\w+)::\w*Builder(::<\w+>)?::build$", p)
        if m:
            out.append((m.group(1), m.group(2), p))
    return out


def parsers(F):
    out = []
    for p in sorted(F.fns):
        m = re.match(r"^mqtt::packet::(v3_1_1|v5_0)::(\w+)::(Generic\w+::<PacketIdType>|\w+)::parse$", p)
        if m and "Builder" not in p:
            out.append((m.group(1), m.group(2), p))
    return out


def mutators(F):
    """Methods (other than constructors, parse, clone) of a packet struct that assign one of its VariableByteInteger fields."""
    out = []
    for adt, a in sorted(F.adts.items()):
        m = re.match(r"^mqtt::packet::(v3_1_1|v5_0)::(\w+)::\w+$", adt)
        if not m or "Builder" in adt or not a.get("variants"):
            continue
        for fd in a["variants"][0]["fields"]:
            if not fd["ty"].endswith("VariableByteInteger"):
                continue
            for n, g in conn.direct_writers(F, fd["name"], adt=adt).items():
                if g.get("kind") != "AssocFn" or g.get("impl_trait") or g["path"].startswith("<"):
                    continue
                if g["locals"][1:2] and g["locals"][1].startswith("&mut") and (m.group(1), m.group(2), g["path"]) not in out:
                    out.append((m.group(1), m.group(2), g["path"]))
        # ... and the methods of the same struct that edit the packet and then call such a recomputation (`add_topic_alias`,
        # `remove_topic_alias` ...): only through them does the pre-state differ from what the length fields describe
        direct = {p for (_, _, p) in out if F.fns[p].get("impl_self", "").split("<")[0] == adt}
        if direct:
            reach = set(direct)
            changed = True
            while changed:
                changed = False
                for p, g in F.fns.items():
                    if p in reach or g.get("impl_self", "").split("<")[0] != adt or g.get("kind") != "AssocFn" or g.get("impl_trait"):
                        continue
                    if conn.fn_refs(g) & reach:
                        reach.add(p)
                        changed = True
            for p in sorted(reach - direct):
                g = F.fns[p]
                t1 = g["locals"][1] if g.get("argc", 0) >= 1 else ""
                if g.get("names", {}).get("1") == "self" and (t1.startswith("&mut") or t1.split("<")[0] == adt) and (m.group(1), m.group(2), p) not in out:
                    out.append((m.group(1), m.group(2), p))
    return out


def id_buffers_ok(F):
    """IsPacketId impls: Buffer = [u8; size_of::<Self>()] for every implementor (u16 -> 2, u32 -> 4)."""
    ims = F.impls_of("mqtt::packet::packet_id::IsPacketId")
    want = {"u16": "[u8; 2]", "u32": "[u8; 4]", "u64": "[u8; 8]", "u8": "[u8; 1]"}
    if not ims:
        return False
    for im in ims:
        st = im.get("self") or im.get("self_ty") or ""
        buf = im.get("types", {}).get("Buffer", "")
        if want.get(st) != buf:
            return False
    return True


AP = "mqtt::common::arc_payload::ArcPayload"
_arc = {}


def arc_model(F):
    """What ArcPayload::new / default / len do, read off their abstract paths, per enum variant:
    len() returns one field of the variant (possibly widened by a cast), new(data, start, length) stores its `length`
    argument there on every path (narrowing casts are guarded by the small-buffer threshold test of that path),
    default() stores a constant."""
    if F.hash in _arc:
        return _arc[F.hash]
    m = {"ok": False}

    def strip_cast(v):
        while v[0] == "sym" and v[1][0] in ("cast", "into"):
            v = v[1][1]
        return v
    try:
        variants = F.adt(AP)["variants"]
        lenfield = {}
        for var in variants:
            ex = explore.Explorer(F)

            def setup(exx, st, fr, var=var):
                st.heap[(("self",), ())] = ("agg", AP, var["name"], tuple(("sym", ("FIELD", f["i"])) for f in var["fields"]))
            rets = [strip_cast(p.ret) for p in ex.run(AP + "::len", setup=setup) if p.kind == "return"]
            if len(rets) == 1 and rets[0][0] == "sym" and rets[0][1][0] == "FIELD":
                lenfield[var["name"]] = rets[0][1][1]
        # private constructors of the payload type (a shared "copy into the inline buffer" helper) are part of new()
        ex = explore.Explorer(F, inline_pred=lambda exx, callee, info: callee.get("kind") == "Closure" or (
            (callee.get("impl_self") or "").split("<")[0] == AP and not callee.get("pub") and callee.get("kind") == "AssocFn"))
        fn = F.fns[AP + "::new"]
        names = fn.get("names", {})
        news = [p.ret for p in ex.run(AP + "::new") if p.kind == "return"]
        lin_n = linear.Lin(lambda t: conn.expand_all(ex.interned_rev, t))
        defs = [p.ret for p in ex.run("<" + AP + " as std::default::Default>::default") if p.kind == "return"]
        argi = None
        okn = bool(news) and len(lenfield) == len(variants)
        for r in news:
            if not (r[0] == "agg" and r[2] in lenfield):
                okn = False
                break
            v = strip_cast(conn.expand_all(ex.interned_rev, r[3][lenfield[r[2]]]))
            k = [k for k in range(1, fn["argc"] + 1) if v == ("sym", ("arg", names.get(str(k))))]
            if not k:
                # the same number spelled differently: `bytes.len()` of `&data[start..start + length]` is `length`
                lv = lin_n.of_value(v)
                k = [k for k in range(1, fn["argc"] + 1) if lv == lin_n.of_value(("sym", ("arg", names.get(str(k)))))]
            if not k or (argi is not None and argi != k[0]):
                okn = False
                break
            argi = k[0]
        dl = None
        for r in defs:
            if r[0] == "agg" and r[2] in lenfield:
                v = strip_cast(r[3][lenfield[r[2]]])
                if v[0] == "c" and (dl is None or dl == v[1]):
                    dl = v[1]
                    continue
            dl = None
            break
        if okn and dl is not None and defs:
            m = {"ok": True, "new_arg": argi - 1, "default_len": dl, "field": lenfield}
    except Exception:
        pass
    _arc[F.hash] = m
    return m


class Acct:
    def __init__(self, F, consumed_facts=None):
        self.F = F
        self.consumed_facts = consumed_facts      # callee post-conditions consumed <= len(input) (proved by C04-R6)

    def run(self, ver, kind, bfn, parser=False, mutator=None):
        """mutator: path of a `&mut self` method of the packet struct that rewrites its length fields (e.g. after a topic /
        property edit); bfn is then the builder of the same kind: the method is applied to every value a builder path
        produces and its post-state is checked like a freshly built value."""
        F = self.F
        if parser:
            ex = explore.Explorer(F, inline_pred=lambda exx, callee, info: callee.get("kind") == "Closure" or explore.small_private_helper(callee))
        else:
            ex = explore.Explorer(F)
        ex.no_fold = ("VariableByteInteger::from_u32",)
        setup_b = None
        if not parser:
            # list-valued builder inputs (subscription entries, topic filters) are given two symbolic elements, so that
            # whatever idiom sums their sizes / serialises them is followed element by element
            bobj = F.fns[bfn]
            badt = F.adts.get(bobj.get("impl_self", "").split("<")[0])
            lf = []
            if badt and badt.get("variants"):
                for f in badt["variants"][0]["fields"]:
                    m = re.match(r"^std::option::Option<std::vec::Vec<(mqtt::[\w:]+)", f["ty"])
                    if m and not m.group(1).endswith("property::Property"):
                        lf.append((f["i"], f["name"]))
            if lf:
                def setup_b(exx, st, fr, lf=lf):
                    for i, name in lf:
                        items = [("sym", ("elem", name, k)) for k in range(2)]
                        st.heap[(fr.root(1), (("f", i, name),))] = ("agg", "std::option::Option", "Some", (exx.cseq_new(st, name, items),))
        ps = ex.run(bfn, setup=setup_b)
        exp = lambda t: conn.expand_all(ex.interned_rev, t)
        lin = linear.Lin(exp)
        rec = {"ver": ver, "kind": kind, "fn": bfn, "ok": 0, "diff": [], "undecided": [], "prop_ok": 0, "prop_diff": []}
        cands = []
        if mutator:
            # composed with the constructors: the method is applied to every value a builder path produces (so that the
            # struct's own invariants, e.g. "packet id present iff QoS > 0", hold in the pre-state), then checked
            mfn = mutator
            madt = F.fns[mfn].get("impl_self", "").split("<")[0]
            mf = F.adts[madt]["variants"][0]["fields"] if madt in F.adts else []
            for pb in ps:
                if not (pb.kind == "return" and pb.ret and pb.ret[0] == "agg" and pb.ret[2] == "Ok"):
                    continue
                Sb = pb.ret[3][0]
                if Sb[0] != "agg" or Sb[1] != madt:
                    continue
                exm = explore.Explorer(F, inline_pred=lambda exx, callee, info, adt=madt: (
                    callee.get("impl_self", "").split("<")[0] == adt and len(callee["blocks"]) <= 30) or callee.get("kind") == "Closure"
                    or explore.small_private_helper(callee))
                exm.interned, exm.interned_rev = ex.interned, ex.interned_rev
                exm.no_fold = ex.no_fold

                byval = not F.fns[mfn]["locals"][1].startswith("&")

                def setup_m(exx, st, fr, Sb=Sb, pb=pb, byval=byval):
                    for fd, v in zip(mf, Sb[3]):
                        st.heap[((fr.root(1) if byval else ("self",)), (("f", fd["i"], fd["name"]),))] = v
                    for hk, hv in pb.heap.items():
                        if hk[0] and hk[0][0] == "CS":
                            st.heap[hk] = hv
                    st.cons.update(pb.cons)
                for pm in exm.run(mfn, setup=setup_m):
                    if pm.kind != "return":
                        continue
                    vals = {}
                    if byval:
                        # `fn edit(mut self, ..) -> Self | Result<Self, _>`: the post-state is the returned struct
                        rv = pm.ret
                        if rv and rv[0] == "agg" and rv[1] == "std::result::Result":
                            if rv[2] != "Ok" or not rv[3]:
                                continue
                            rv = rv[3][0]
                        if not (rv and rv[0] == "agg" and rv[1] == madt and len(rv[3]) == len(mf)):
                            continue
                        S2 = rv
                    else:
                        for e in pm.effects:
                            if e[0] == "write" and e[1] == ("self",) and len(e[2]) == 1 and e[2][0][0] == "f":
                                vals[e[2][0][1]] = e[3]
                        if not any(mf[i]["ty"].endswith("VariableByteInteger") for i in vals if i < len(mf)):
                            continue
                        S2 = ("agg", madt, Sb[2], tuple(vals.get(fd["i"], Sb[3][k]) for k, fd in enumerate(mf)))
                    heap2 = dict(pb.heap)
                    heap2.update(pm.heap)

                    class _PP(object):
                        pass
                    pp = _PP()
                    pp.cons, pp.heap, pp.effects, pp.kind, pp.ret = pm.cons, heap2, pm.effects, "return", None
                    pp.events = lambda: None
                    cands.append((pp, S2))
        else:
            for p in ps:
                if not (p.kind == "return" and p.ret and p.ret[0] == "agg" and p.ret[2] == "Ok"):
                    continue
                cands.append((p, p.ret[3][0]))
        for p, S in cands:
            if parser and S[0] == "tup" and len(S[1]) == 2:
                S = S[1][0]          # Ok((packet, consumed))
            if S[0] != "agg" or S[1] not in F.adts:
                rec["undecided"].append("build returns a value that is not a struct literal")
                continue
            fields = F.adts[S[1]]["variants"][0]["fields"]
            names = [f["name"] for f in fields]
            rl_name = [f["name"] for f in fields if f["ty"].endswith("VariableByteInteger")]
            if not rl_name:
                rec["undecided"].append("no VariableByteInteger field")
                continue
            # the Remaining Length is the VBI the serialiser emits second (checked below); its value:
            ser = [q for q, f in F.fns.items() if f.get("name") == "to_continuous_buffer" and f.get("impl_self", "").split("<")[0] == S[1]]
            inherent = [q for q in ser if not q.startswith("<")]     # the trait impl only forwards to the inherent method
            ser = inherent or ser
            if not ser:
                rec["undecided"].append("no to_continuous_buffer for %s" % S[1])
                continue

            def inl2(exx, callee, info, adt=S[1]):
                return (callee.get("impl_self", "").split("<")[0] == adt and len(callee["blocks"]) <= 30) or callee.get("kind") == "Closure" \
                    or explore.small_private_helper(callee)
            ex2 = explore.Explorer(F, inline_pred=inl2)
            ex2.interned = ex.interned
            ex2.interned_rev = ex.interned_rev

            def setup(exx, st, fr, S=S, fields=fields, p=p):
                for fd, v in zip(fields, S[3]):
                    st.heap[(("self",), (("f", fd["i"], fd["name"]),))] = v
                for hk, hv in p.heap.items():
                    if hk[0] and hk[0][0] == "CS":
                        st.heap[hk] = hv             # elements of the concrete lists the value refers to
                st.cons.update(p.cons)
            try:
                qs = ex2.run(sorted(ser)[0], setup=setup)
            except explore.ExploreError as e:
                rec["undecided"].append("serialiser not explorable: %s" % e)
                continue
            for q in qs:
                if q.kind != "return":
                    continue
                if not (q.ret and q.ret[0] == "vec"):
                    rec["undecided"].append("serialiser returns an untracked buffer")
                    continue
                items = exp(q.ret)[1]
                if len(items) < 2:
                    rec["undecided"].append("serialiser emits fewer than two sources")
                    continue
                ctx = Ctx(F, S, fields, exp, lin, parser=parser, cons=q.cons)
                rec.setdefault("leaf_used", set())
                # item 1 must be the Remaining Length: a VBI field of S
                rlv = ctx.vbi_of_item(items[1])
                if rlv is None:
                    rec["undecided"].append("second source is not a VariableByteInteger field")
                    continue
                arg = ctx.from_u32_arg(rlv)
                if arg is None:
                    rec["undecided"].append("remaining_length is not VariableByteInteger::from_u32(..): %s" % conn.short(rlv)[:120])
                    continue
                L = ctx.canon(lin.of_value(arg))
                tot = ({}, 0)
                bad = None
                entry_items = 0
                for it in items[2:]:
                    if ctx.is_entry_item(it):
                        entry_items += 1
                        continue
                    e = ctx.enc(it)
                    if e is None:
                        bad = it
                        break
                    tot = linear.lin_add(tot, e)
                if bad is not None:
                    rec["undecided"].append("source not understood: %s" % conn.short(bad)[:160])
                    continue
                tot = ctx.canon(tot)
                # list part: build sums e.size() over the same vector the serialiser iterates
                L2, sums = ctx.split_sums(L)
                if sums and not all(ctx.sum_is_sizes(sa) for sa in sums):
                    rec["diff"].append({"why": "the per-entry sum in build() does not add e.size() of each entry", "build": ctx.show(L), "serialised": ctx.show(tot)})
                    continue
                if entry_items and not sums:
                    rec["diff"].append({"why": "entries are serialised but build() does not add their sizes", "build": ctx.show(L), "serialised": ctx.show(tot)})
                    continue
                facts = [ctx.canon(f) for f in lin.facts_of_cons(q.cons)] + ctx.emptiness_facts()
                if parser and self.consumed_facts is not None:
                    facts += [ctx.canon(f) for f in self.consumed_facts(F, p, lin, exp)]
                d1 = linear.lin_add(L2, tot, -1)
                d2 = linear.lin_add(tot, L2, -1)
                rec["leaf_used"] |= ctx.leaf_used
                if linear.entails(facts, d1) and linear.entails(facts, d2):
                    rec["ok"] += 1
                else:
                    only_b = ({a: c for a, c in d1[0].items() if c > 0}, max(d1[1], 0))
                    only_s = ({a: -c for a, c in d1[0].items() if c < 0}, max(-d1[1], 0))
                    rec["diff"].append({"why": "Remaining Length formula differs from the serialised sources", "build": ctx.show(L), "serialised": ctx.show(tot),
                                        "only_in_build": ctx.show(only_b), "only_serialised": ctx.show(only_s), "path": conn.path_summary(p)})
                # property lengths: a VBI source followed by a nested property list
                for i in range(2, len(items) - 1):
                    v = ctx.vbi_of_item(items[i])
                    nx = ctx.nested_of_item(items[i + 1])
                    if v is None or nx is None:
                        continue
                    a = ctx.from_u32_arg(v)
                    if a is None:
                        rec["undecided"].append("property length is not from_u32(..)")
                        continue
                    la = ctx.canon(lin.of_value(a))
                    want = ctx.size_atom(nx)
                    if la == want:
                        rec["prop_ok"] += 1
                    else:
                        rec["prop_diff"].append({"length": ctx.show(la), "list": ctx.show(want)})
        return rec


class Ctx:
    def __init__(self, F, S, fields, exp, lin, parser=False, cons=None):
        self.F, self.S, self.fields, self.exp, self.lin = F, S, fields, exp, lin
        self.parser = parser
        self.cons = cons or {}
        self._cons_exp = None
        self.leaf_used = set()

    # ---- values
    def resolve(self, v):
        """References into `self` become the field values of S; wrappers that do not change the bytes are stripped."""
        v = self.exp(v)
        while True:
            if v[0] == "ref" and v[1] == ("self",) and v[2]:
                fv = self.S[3][v[2][0][1]]
                for el in v[2][1:]:
                    if el[0] == "dc":
                        continue
                    if el[0] == "f" and fv[0] == "agg" and el[1] < len(fv[3]):
                        fv = fv[3][el[1]]
                    elif el[0] == "f" and fv[0] == "sym":
                        fv = ("sym", ("field", fv[1], el[1]))
                    else:
                        return v
                v = self.exp(fv)
                continue
            if v[0] == "sym" and v[1][0] == "call" and v[1][1].split("::")[-1] in WRAPPERS and v[1][2]:
                a0 = [x for x in v[1][2] if not (isinstance(x, tuple) and x and x[0] == "targs")]
                if a0:
                    v = self.exp(a0[0])
                    continue
            if v[0] == "sym" and v[1][0] == "init" and v[1][1][0] == "D" and not v[1][2]:
                v = ("sym", v[1][1][1])
                continue
            if v[0] == "agg" and v[1] == "std::option::Option" and v[2] == "Some" and len(v[3]) == 1:
                v = self.exp(v[3][0])        # the payload of a present optional field
                continue
            return v

    def field_ty_of_value(self, v):
        for fd, fv in zip(self.fields, self.S[3]):
            rv = self.resolve(fv)
            if rv == v:
                return fd["ty"]
            # payload of an optional field that is still symbolic (`if let Some(x) = &self.f`)
            if fd["ty"].startswith("std::option::Option<") and rv[0] == "sym" and v == ("sym", ("field", rv[1], 0)):
                return fd["ty"][len("std::option::Option<"):-1]
        return None

    def size_atom(self, v):
        v = self.resolve(v)
        ty = self.field_ty_of_value(v)
        if ty and "IsPacketId>::Buffer" in ty:
            return linear.atom(IDLEN)
        if v[0] == "arr":
            return linear.const(len(v[1]))
        if ty:
            m = re.match(r"^(?:std::option::Option<)?\[u8; (\d+)\]>?$", ty)
            if m:
                return linear.const(int(m.group(1)))      # e.g. a named constant stored in a [u8; n] field
        if v[0] == "vec":
            l = self.lin.len_of(v)                 # byte vector built on the path: sum of what was appended
            if not any(isinstance(a, tuple) and a and a[0] == "len" and a[1] == v for a in l[0]):
                return self.canon(l)
        if v[0] == "agg" and v[1] == AP and arc_model(self.F)["ok"] and v[2] in arc_model(self.F)["field"]:
            return self.canon(self.lin.of_value(v[3][arc_model(self.F)["field"][v[2]]]))
        if v[0] == "sym" and v[1][0] == "call":
            nm = v[1][1]
            args = [x for x in v[1][2] if not (isinstance(x, tuple) and x and x[0] == "targs")]
            am = arc_model(self.F)
            if am["ok"] and nm == AP + "::new" and len(args) > am["new_arg"]:
                return self.canon(self.lin.of_value(args[am["new_arg"]]))          # ArcPayload::new(data, start, length).len() == length
            if am["ok"] and nm.endswith("ArcPayload as std::default::Default>::default"):
                return linear.const(am["default_len"])
            if nm.split("::")[-1] == "new" and not args and ("Vec" in nm or "Properties" in nm):
                return linear.const(0)                                  # an empty list
        try:
            l = self.lin.len_of(v)          # slicing algebra, collected vectors, ...
            if not (len(l[0]) == 1 and l[1] == 0 and list(l[0])[0] == ("len", v)):
                return self.canon(l)
        except RecursionError:
            pass
        return linear.atom(("SIZE", v))

    def consumed_atom(self, a):
        """`.1` of the Ok payload of a leaf decoder call = bytes consumed; under LEAF-CANON (C04-R8 / A-LEAF) that is the
        encoded size of the decoded value."""
        if not (isinstance(a, tuple) and len(a) == 3 and a[0] == "field" and a[2] == 1):
            return None
        inner = self.exp(a[1]) if isinstance(a[1], tuple) else a[1]
        if not (isinstance(inner, tuple) and len(inner) == 3 and inner[0] == "field" and inner[2] == 0):
            return None
        c = self.exp(inner[1]) if isinstance(inner[1], tuple) else inner[1]
        if not (isinstance(c, tuple) and c and c[0] == "call"):
            return None
        val = ("sym", ("field", ("field", c, 0), 0))
        nm = c[1]
        if nm.endswith("MqttString::decode") or nm.endswith("MqttBinary::decode"):
            self.leaf_used.add(nm.split("::")[-2] + "::decode")
            return self.size_atom(val)
        if nm.endswith("PropertiesParse>::parse"):
            self.leaf_used.add("Properties::parse")
            # the length prefix the parser stores for this list: the VBI field built as from_u32(size(list))
            want = ({("SIZE", self.resolve(val)): 1}, 0)
            saved, self.parser = self.parser, False        # compare without substituting (the Remaining Length itself contains `a`)
            try:
                for fd, fv in zip(self.fields, self.S[3]):
                    if fd["ty"].endswith("VariableByteInteger"):
                        a0 = self.from_u32_arg(fv)
                        if a0 is not None and self.canon(self.lin.of_value(a0)) == want:
                            return linear.lin_add(self.size_atom(fv), want)
            finally:
                self.parser = saved
            return None
        return None

    # ---- serialiser items
    def enc(self, it):
        k = it[0]
        if k in ("slice", "io"):
            src = it[1]
            if src[0] == "loc" and src[1] == ("self",):
                path = src[2]
                fd = [f for f in self.fields if f["i"] == path[0][1]][0]
                ty = fd["ty"]
                m = re.match(r"^(?:std::option::Option<)?\[u8; (\d+)\]>?$", ty)
                if m:
                    return linear.const(int(m.group(1)))
                if "IsPacketId>::Buffer" in ty:
                    return linear.atom(IDLEN)
                return self.size_atom(("ref", ("self",), path))
            if src[0] == "loc" and src[1][0] == "D":
                return self.size_atom(("sym", src[1][1]))
            if src[0] in ("sym", "ref", "agg", "arr"):
                return self.size_atom(src)
            return None
        if k == "nested":
            v = self.nested_of_item(it)
            return self.size_atom(v) if v is not None else None
        if k == "c":
            return linear.const(1)
        if k == "sym":
            return linear.const(1)       # a single pushed byte
        return None

    def nested_of_item(self, it):
        if it[0] != "nested":
            return None
        v = it[1]
        if v[0] == "sym" and v[1][0] == "call" and v[1][1].split("::")[-1] in ("to_continuous_buffer", "to_buffers") and v[1][2]:
            return self.resolve(v[1][2][0])
        return None

    def vbi_of_item(self, it):
        """The VariableByteInteger value whose bytes this source is, if any."""
        if it[0] not in ("slice", "io"):
            return None
        src = it[1]
        v = None
        if src[0] == "loc" and src[1][0] == "D":
            v = ("sym", src[1][1])
        elif src[0] == "sym":
            v = src
        if v is None:
            return None
        t = v[1]
        if t[0] == "call" and t[1].endswith("VariableByteInteger::as_bytes") and t[2]:
            return self.resolve(t[2][0])
        return None

    def from_u32_arg(self, v):
        v = self.exp(v)
        t = v[1] if v[0] == "sym" else None
        while t and t[0] == "field":
            t = t[1]
        if t and t[0] == "call" and t[1].endswith("VariableByteInteger::from_u32") and t[2]:
            return t[2][0]
        return None

    def is_entry_item(self, it):
        """Sources produced inside the loop over a list field (one abstract iteration stands for all)."""
        return re.search(r"::next[\"']", repr(it)) is not None

    # ---- linear forms
    def canon_atom(self, a):
        if isinstance(a, tuple) and a and a[0] == "call":
            nm = a[1].split("::")[-1]
            args = [x for x in a[2] if not (isinstance(x, tuple) and x and x[0] == "targs")]
            if nm in ("size", "len") and len(args) == 1:
                f = self.size_atom(args[0])
                return f
            if nm == "size_of" and not args:
                ta = [x for x in a[2] if isinstance(x, tuple) and x and x[0] == "targs"]
                tn = ta[0][1][0] if ta and ta[0][1] else ""
                if tn == "PacketIdType" or "IsPacketId>::Buffer" in tn:
                    return linear.atom(IDLEN)
        if isinstance(a, tuple) and a and a[0] == "len":
            return self.size_atom(a[1])
        if isinstance(a, tuple) and a and a[0] in ("enum_eq", "cmp", "not"):
            b = self.bool_value(a)         # usize::from(flag): 0 / 1 once the path has decided the flag
            if b is not None:
                return linear.const(1 if b else 0)
        if self.parser:
            r = self.consumed_atom(a)
            if r is not None:
                return r
        return linear.atom(a)

    def bool_value(self, a):
        if self._cons_exp is None:
            self._cons_exp = {repr(self.exp(k)): c for k, c in self.cons.items()}
        if a[0] == "not":
            inner = a[1][1] if a[1][0] == "sym" else None
            v = self.bool_value(inner) if inner else None
            return None if v is None else (not v)
        if a[0] == "enum_eq":
            c = self._cons_exp.get(repr(self.exp(("discr", a[1], a[2]))))
            if c is None:
                return None
            want = None
            for d, n in explore.BUILTIN_DISCR.get(a[2], {}).items():
                if n == a[3]:
                    want = d
            if want is None and a[2] in self.F.adts:
                for v in self.F.adts[a[2]]["variants"]:
                    if v["name"] == a[3]:
                        want = v.get("discr", v["idx"])
            if want is None:
                return None
            if c[0] == "eq":
                return c[1] == want
            return False if want in c[1] else None
        c = self._cons_exp.get(repr(self.exp(a)))
        if c is not None and c[0] == "eq":
            return c[1] == 1
        return None

    def emptiness_facts(self):
        """x.is_empty() decided on the path: SIZE(x) == 0 / SIZE(x) >= 1."""
        out = []
        for k, c in self.cons.items():
            k = self.exp(k)
            if k[0] == "call" and k[1].split("::")[-1] == "is_empty" and c[0] == "eq":
                args = [x for x in k[2] if not (isinstance(x, tuple) and x and x[0] == "targs")]
                if len(args) == 1:
                    sz = self.size_atom(args[0])
                    if c[1] == 1:
                        out.append(sz)                                        # size <= 0
                    else:
                        out.append(linear.lin_add(linear.const(1), sz, -1))    # 1 - size <= 0
        return out

    def canon(self, l):
        out = ({}, l[1])
        for a, c in l[0].items():
            out = linear.lin_add(out, self.canon_atom(a), c)
        return out

    def split_sums(self, l):
        rest = ({}, l[1])
        sums = []
        for a, c in l[0].items():
            if isinstance(a, tuple) and a and a[0] == "call" and a[1].endswith("Iterator::sum") and c == 1:
                sums.append(a)
            else:
                rest = linear.lin_add(rest, linear.atom(a), c)
        return rest, sums

    def sum_is_sizes(self, a):
        """sum(map(iter(list), |e| e.size())): the closure's only call is `size` on its argument."""
        r = self.exp(a)
        m = re.search(r"\('closure', '([^']+)'", repr(r))
        if not m or "Iterator::map" not in repr(r):
            return False
        g = self.F.fns.get(m.group(1))
        if g is None:
            return False
        calls = []
        for b in g["blocks"]:
            t = b["term"]
            if t["k"] == "call" and "fn" in t["func"].get("const", {}):
                fi = t["func"]["const"]["fn"]
                calls.append((fi.get("res") or {}).get("path", fi["path"]))
        return len(calls) == 1 and calls[0].split("::")[-1] == "size"

    def show(self, l):
        def nm(a):
            if a == IDLEN:
                return "len(packet id)"
            if isinstance(a, tuple) and a and a[0] == "SIZE":
                return "size(%s)" % conn.short(a[1])[:80]
            return conn.short(("sym", a))[:80] if isinstance(a, tuple) else str(a)
        parts = ["%s%s" % ("" if c == 1 else "%d*" % c, nm(a)) for a, c in sorted(l[0].items(), key=repr)]
        if l[1] or not parts:
            parts.append(str(l[1]))
        return " + ".join(parts)
