"""Evidence / violation / known-finding plumbing shared by all rule modules."""
import json
import os
import sys
import time
import traceback

VERIF = os.path.dirname(os.path.dirname(os.path.dirname(os.path.abspath(__file__))))
EVID = os.environ.get("VERIF_EVIDENCE_DIR") or os.path.join(VERIF, "evidence")
KNOWN = os.path.join(VERIF, "known_findings.jsonl")


def load_known():
    known, fixed = {}, []
    if os.path.exists(KNOWN):
        for ln in open(KNOWN):
            ln = ln.strip()
            if not ln or ln.startswith("#"):
                continue
            d = json.loads(ln)
            if d.get("status") == "known":
                known[(d["property"], d["key"])] = d
            else:
                fixed.append(d)
    return known, fixed


class Rule:
    def __init__(self, run, rid, clause, floor=0, kind="S"):
        self.run = run
        self.rid = rid
        self.clause = clause
        self.floor = floor
        self.kind = kind
        self.instances = 0
        self.held = 0
        self.samples = []
        self.notes = []
        self.exact = None

    def ok(self, key, detail=None):
        self.instances += 1
        self.held += 1
        if len(self.samples) < 6:
            self.samples.append({"instance": key, "verdict": "holds", "detail": detail})

    def violation(self, key, what, detail=None, site=None):
        """key: stable site key (function path / variant / valuation; never a line number)."""
        self.instances += 1
        self.run.add_violation(self, key, what, detail, site)

    def note(self, text):
        self.notes.append(text)


class Run:
    def __init__(self, prop, tier, level="other"):
        self.prop = prop
        self.tier = tier
        self.level = level
        self.t0 = time.time()
        self.rules = []
        self.violations = []
        self.known_hits = []
        self.known, self.fixed = load_known()
        self.assumptions = []
        self.cov_extra = {}
        self.facts_meta = []
        self.explanation = ""
        self.trusted = []

    def rule(self, rid, clause, floor=0, kind="S"):
        r = Rule(self, rid, clause, floor, kind)
        self.rules.append(r)
        return r

    def add_violation(self, rule, key, what, detail, site):
        full = "%s|%s" % (rule.rid, key)
        k = self.known.get((self.prop, full))
        rec = {"rule": rule.rid, "clause": rule.clause, "key": full, "what": what, "detail": detail, "site": site}
        if k is not None:
            self.known_hits.append((k, rec))
        else:
            self.violations.append(rec)

    def fail_closed(self, what, detail=None):
        r = Rule(self, "FAIL-CLOSED", "machinery precondition")
        self.rules.append(r)
        self.violations.append({"rule": "FAIL-CLOSED", "clause": "fail-closed", "key": "FAIL-CLOSED|" + what[:80],
                                "what": what, "detail": detail, "site": None})

    def finish(self):
        # floors
        for r in list(self.rules):
            if r.rid != "FAIL-CLOSED" and r.instances < r.floor:
                self.violations.append({"rule": r.rid, "clause": r.clause, "key": r.rid + "|floor",
                                        "what": "rule matched %d instances, below the confirmed floor %d (anchor lost or code shape no longer recognised)" % (r.instances, r.floor),
                                        "detail": None, "site": None})
        os.makedirs(os.path.join(EVID, "violations"), exist_ok=True)
        # stale replay files of this property
        for n in os.listdir(os.path.join(EVID, "violations")):
            if n.startswith(self.prop + "-"):
                os.unlink(os.path.join(EVID, "violations", n))
        lines = []
        seen_known = set()
        for k, rec in self.known_hits:
            if rec["key"] in seen_known:
                continue        # the same finding met again under another feature configuration
            seen_known.add(rec["key"])
            lines.append("KNOWN-FINDING: property=%s %s [%s]" % (self.prop, k.get("what", rec["what"]), rec["key"]))
        for i, v in enumerate(self.violations):
            p = os.path.join(EVID, "violations", "%s-%d.json" % (self.prop, i))
            with open(p, "w") as fh:
                json.dump(v, fh, indent=1, default=str)
            lines.append("VIOLATION property=%s replay=%s" % (self.prop, p))
            lines.append("  rule %s: %s" % (v["rule"], v["what"]))
            if v.get("site"):
                lines.append("  at %s" % v["site"])
            lines.append("  key %s" % v["key"])
        obligations = sum(r.instances for r in self.rules)
        discharged = sum(r.held for r in self.rules)
        samples = []
        for r in self.rules:
            for s in r.samples[:2]:
                samples.append(dict(rule=r.rid, **s))
        cov = {
            "explanation": self.explanation,
            "obligations": obligations,
            "discharged": discharged,
            "checker_cmd": "./check %s %s" % (self.prop, self.tier),
            "trusted_base": self.trusted or ["rustc nightly front end + MIR construction", "engine/driver fact serialisation",
                                             "engine/sa python analyses", "spec/*.json oracle tables"],
            "rules": [{"id": r.rid, "clause": r.clause, "kind": r.kind, "instances": r.instances, "held": r.held,
                       "floor": r.floor, "notes": r.notes[:20]} for r in self.rules],
            "samples": samples[:24] or [{"note": "no instance"}],
            "facts": self.facts_meta,
            "known_findings_hit": [rec["key"] for _, rec in self.known_hits],
        }
        cov.update(self.cov_extra)
        ev = {
            "property_id": self.prop,
            "tier": self.tier,
            "seed": int(os.environ.get("VERIF_SEED", "0") or 0),
            "level": self.level,
            "coverage": cov,
            "assumptions": self.assumptions,
            "wall_s": round(time.time() - self.t0, 3),
            "violations": len(self.violations),
        }
        with open(os.path.join(EVID, self.prop + ".json"), "w") as fh:
            json.dump(ev, fh, indent=1, default=str)
        for ln in lines:
            print(ln)
        print("%s %s: %d rule(s), %d instance(s), %d held, %d known finding(s), %d violation(s), %.1fs" % (
            self.prop, self.tier, len(self.rules), obligations, discharged, len(self.known_hits),
            len(self.violations), time.time() - self.t0))
        return 1 if self.violations else 0


def run_guarded(prop, tier, level, body):
    """Run a property's rule module; any exception fails closed."""
    run = Run(prop, tier, level)
    try:
        body(run)
    except Exception as e:  # noqa
        run.fail_closed("exception in rule module: %r" % (e,), traceback.format_exc())
        traceback.print_exc(file=sys.stderr)
    return run.finish()
