"""Serialiser sequence extraction (shared by C02 and C03): for a `to_continuous_buffer` / `to_buffers`
method, the guarded sequence of sources appended to the output, per path valuation."""
import re
import explore
import conn


def pairs(F, both=True):
    """impl_self -> {method name -> fn} for serialisable types; both=True keeps only those that have the contiguous and the
    vectored serialiser (the vectored one exists only with the `std` feature: IoSlice)."""
    by = {}
    for f in F.fns.values():
        if f.get("kind") == "AssocFn" and f.get("name") in ("to_continuous_buffer", "to_buffers", "size") and f.get("impl_self") and not f.get("impl_trait"):
            by.setdefault(f["impl_self"], {})[f["name"]] = f
    return {k: v for k, v in by.items() if "to_continuous_buffer" in v and ("to_buffers" in v or not both)}


def has_vectored(F):
    return any(f.get("name") == "to_buffers" for f in F.fns.values())


def norm_item(interned, it):
    """Canonical descriptor of one appended source."""
    it = conn.expand_all(interned, it)
    k = it[0]
    if k in ("slice", "io"):
        src = it[1]
        # a slice of the temporary produced by x.to_continuous_buffer() is the nested serialisation of x
        # (`buf.extend_from_slice(&x.to_continuous_buffer())` == `buf.append(&mut x.to_continuous_buffer())`)
        t = None
        if isinstance(src, tuple) and src and src[0] == "loc" and src[1] and src[1][0] == "D" and not src[2]:
            t = src[1][1]
        elif isinstance(src, tuple) and src and src[0] == "sym":
            t = src[1]
        while isinstance(t, tuple) and t and t[0] == "call" and len(t[2]) >= 1 and t[1].split("::")[-1] in ("deref", "as_ref", "as_slice", "borrow", "deref_mut", "as_mut_slice"):
            a0 = t[2][0]
            t = a0[1] if (isinstance(a0, tuple) and a0 and a0[0] == "sym") else None
        if isinstance(t, tuple) and t and t[0] == "call" and t[1].split("::")[-1] in ("to_continuous_buffer", "to_buffers"):
            return ("nested", tuple(norm_src(a) for a in t[2]))
        return ("src", norm_src(src))
    if k == "nested":
        v = it[1]
        if v[0] == "sym" and v[1][0] == "call":
            name = v[1][1].split("::")[-1]
            if name in ("to_continuous_buffer", "to_buffers"):
                return ("nested", tuple(norm_src(a) for a in v[1][2]))
        return ("nested?", conn.short(v)[:120])
    if k == "evs?" and len(it) > 1:
        return norm_item(interned, ("nested", it[1]))     # vector started from a nested serialisation
    if k == "agg" or k == "c" or k == "sym":
        return ("byte", conn.short(it)[:120])
    return ("?", conn.short(it)[:120])


def self_place(t):
    """'self.a.b.0' for a term that denotes a part of `self` however it was reached: a location path (downcasts dropped),
    the entry value of one, a payload / field projection of such a term, or a full-range slice of it.  None otherwise."""
    if not isinstance(t, tuple) or not t:
        return None
    if t[0] == "sym":
        return self_place(t[1])
    if t[0] == "loc" or t[0] == "ref":
        root, path = t[1], t[2]
        els = [conn.pel(x) for x in path if x[0] != "dc"]
        if root == ("self",):
            return ".".join(["self"] + els)
        if root and root[0] == "D":
            b = self_place(root[1])
            return ".".join([b] + els) if b else None
        return None
    if t[0] == "init" and t[1] == ("self",):
        return ".".join(["self"] + [conn.pel(x) for x in t[2] if x[0] != "dc"])
    if t[0] == "field" and isinstance(t[2], int):
        b = self_place(t[1])
        return "%s.%d" % (b, t[2]) if b else None
    if t[0] == "call" and len(t[2]) == 2 and t[1].endswith("::index") and "RangeFull" in repr(t[2][1])[:90]:
        return self_place(t[2][0])
    return None


def norm_src(s):
    sp = self_place(s)
    if sp is not None and sp.count(".") >= 1:
        return sp          # a projection below a field of self: one spelling for `x.Some.0`, `field(x, 0)`, `field(x, 0)[..]`
    if isinstance(s, tuple) and s and s[0] == "loc":
        root, path = s[1], s[2]
        if root == ("self",):
            return "self." + ".".join(conn.pel(x) for x in path)
        if root[0] == "D":
            return "*" + conn.short(("sym", root[1]))[:160]
        return "%s.%s" % (root, ".".join(conn.pel(x) for x in path))
    if isinstance(s, tuple) and s and s[0] == "sym":
        # a slice-typed value appended as it is denotes the bytes it points to - the same bytes as the location `*value`
        return "*" + conn.short(s)[:160]
    return conn.short(s)[:160]


LEAF = ("mqtt::packet::mqtt_string::MqttString", "mqtt::packet::mqtt_binary::MqttBinary",
        "mqtt::packet::variable_byte_integer::VariableByteInteger")


def _inline(ex, callee, info):
    """Leaf byte containers are inlined so that nested(to_continuous_buffer(x)) and io(as_bytes(x)) meet."""
    s = callee.get("impl_self", "").split("<")[0]
    if s in LEAF and callee.get("name") in ("to_continuous_buffer", "to_buffers", "as_bytes"):
        return True
    # private helpers a serialiser delegates to (e.g. a shared "append the optional tail" routine writing through `&mut Vec`)
    return explore.small_private_helper(callee) or callee.get("kind") == "Closure"


def strip_sites(t):
    """Remove call-site positions from `mut` terms so that the two sibling functions produce equal keys."""
    if not isinstance(t, tuple):
        return t
    if t and t[0] == "mut" and len(t) >= 6:
        return ("mut", t[1], strip_sites(t[3]), strip_sites(t[5]))
    return tuple(strip_sites(x) for x in t)


def list_fields(F, impl_self):
    """Fields of a packet struct that are lists of in-crate values other than properties (subscription entries, topic
    filters ...): (index, name) pairs."""
    a = F.adts.get(impl_self.split("<")[0])
    out = []
    if a and a.get("variants"):
        for f in a["variants"][0]["fields"]:
            m = re.match(r"^std::vec::Vec<(mqtt::[\w:]+)", f["ty"])
            if m and not m.group(1).endswith("property::Property"):
                out.append((f["i"], f["name"]))
    return out


def sequences(F, fn, loop_k=1, list_len=None):
    """list of (valuation key, [items], path) for every return path; None if some path returns an untracked value.
    list_len: give every list field of `self` exactly that many (symbolic) elements, so that any iteration idiom over it
    (for loop, extend(flat_map), ...) is followed element by element."""
    ex = explore.Explorer(F, loop_k=loop_k, inline_pred=_inline)
    setup = None
    lf = list_fields(F, fn.get("impl_self", "")) if list_len is not None else []
    if lf:
        def setup(exx, st, fr):
            for i, name in lf:
                items = [("sym", ("elem", name, k)) for k in range(list_len)]
                st.heap[(("self",), (("f", i, name),))] = exx.cseq_new(st, name, items)
    ps = ex.run(fn["path"], setup=setup)
    out = []
    untracked = 0
    for p in ps:
        if p.kind != "return":
            continue
        r = p.ret
        if r and r[0] == "sym" and r[1][0] == "call" and r[1][1].split("::")[-1] in ("to_continuous_buffer", "to_buffers"):
            r = ("vec", (("nested", r),))     # pure forwarding (enum dispatch arm)
        if not (r and r[0] == "vec"):
            untracked += 1
            continue
        key = tuple(sorted("%s %s %s" % (conn.short(strip_sites(conn.expand_all(ex.interned_rev, k))), c[0], sorted(c[1]) if isinstance(c[1], frozenset) else c[1]) for k, c in p.cons.items()))
        raw = [strip_sites(conn.expand_all(ex.interned_rev, it)) for it in r[1]]
        items = [norm_item(ex.interned_rev, it) for it in raw]
        # an empty vector / array literal built on the path (`opt.map_or_else(Vec::new, ..)` on the None arm) appends no bytes
        items = [it for it in items if not (it[0] == "src" and isinstance(it[1], str) and
                                            it[1].replace("*", "").replace("$", "").replace("deref(", "").startswith(("(vec,())", "(arr,())")))]
        out.append((key, items, p, raw))
    return out, untracked


def field_type(F, impl_self, name):
    adt = impl_self.split("<")[0]
    a = F.adts.get(adt)
    if not a:
        return None
    for f in a["variants"][0]["fields"]:
        if f["name"] == name:
            return f["ty"]
    return None
