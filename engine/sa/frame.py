"""Frame (mod/ref) facts per in-crate method: which fields of the receiver a method may read / write,
computed from MIR (direct accesses on the receiver local plus transitive in-crate callees that get the
receiver).  Used to rewrite accessor(mutator(x)) to accessor(x) when reads(accessor) and writes(mutator)
are disjoint - e.g. qos(add_topic_alias(p, a)) == qos(p)."""

_cache = {}


def _recv_fields(place, recv_local):
    """Field name accessed if the place is a projection of the receiver local, '*' for the whole receiver."""
    if place["l"] != recv_local:
        return None
    for el in place["p"]:
        if el == "*":
            continue
        if isinstance(el, dict) and "f" in el:
            return el.get("n", str(el["f"]))
        return "*"
    return "*"


def analyse(F, path, depth=0):
    key = (F.hash, path)
    if key in _cache:
        return _cache[key]
    _cache[key] = (set(["*"]), set(["*"]))  # recursion guard: conservative
    f = F.fns.get(path)
    if f is None or f["argc"] < 1 or depth > 6:
        return _cache[key]
    reads, writes = set(), set()
    # locals that alias the receiver (copies / reborrows of _1)
    alias = {1: None}   # local -> field restriction (None = whole receiver)
    amut = {1: f["locals"][1].startswith("&mut") or not f["locals"][1].startswith("&")}
    changed = True
    blocks = f["blocks"]
    while changed:
        changed = False
        for b in blocks:
            for s in b["stmts"]:
                if s["k"] != "assign" or s["lhs"]["p"]:
                    continue
                rv = s["rv"]
                src = None
                if rv["k"] == "ref":
                    src = rv["place"]
                elif rv["k"] == "use" and ("copy" in rv["op"] or "move" in rv["op"]):
                    src = rv["op"].get("copy") or rv["op"].get("move")
                if src and src["l"] in alias:
                    fld = alias[src["l"]]
                    if fld is None:
                        fr = _recv_fields(src, src["l"])
                        fld = None if fr == "*" else fr
                    if s["lhs"]["l"] not in alias:
                        alias[s["lhs"]["l"]] = fld
                        amut[s["lhs"]["l"]] = (bool(rv.get("mut")) if rv["k"] == "ref" else amut.get(src["l"], True))
                        changed = True
    def fields_of(place):
        if place["l"] not in alias:
            return None
        base = alias[place["l"]]
        if base is not None:
            return base
        return _recv_fields(place, place["l"])
    for b in blocks:
        for s in b["stmts"]:
            if s["k"] != "assign":
                continue
            w = fields_of(s["lhs"])
            if w is not None and not (not s["lhs"]["p"] and s["lhs"]["l"] in alias and s["lhs"]["l"] != 1):
                if s["lhs"]["l"] == 1 or s["lhs"]["p"]:
                    writes.add(w)
            rv = s["rv"]
            ops = []
            if rv["k"] in ("use", "cast", "repeat"):
                ops = [rv["op"]]
            elif rv["k"] == "bin":
                ops = [rv["a"], rv["b"]]
            elif rv["k"] == "un":
                ops = [rv["a"]]
            elif rv["k"] == "agg":
                ops = rv["ops"]
            elif rv["k"] in ("ref", "rawptr", "discr"):
                r = fields_of(rv["place"])
                if r is not None:
                    reads.add(r)
            for o in ops:
                pl = o.get("copy") or o.get("move")
                if pl:
                    r = fields_of(pl)
                    if r is not None:
                        reads.add(r)
        t = b["term"]
        if t["k"] == "call":
            fi = t["func"].get("const", {}).get("fn")
            cpath = None
            if fi:
                cpath = (fi.get("res") or {}).get("path", fi["path"])
            for i, a in enumerate(t["args"]):
                pl = a.get("copy") or a.get("move")
                if not pl or pl["l"] not in alias:
                    continue
                r = fields_of(pl)
                if r is None:
                    continue
                if r == "*" and cpath in F.fns and i == 0:
                    cr, cw = analyse(F, cpath, depth + 1)
                    reads |= cr
                    writes |= cw
                else:
                    reads.add(r)
                    # passed by reference to something we do not analyse: assume written if it may be &mut
                    if amut.get(pl["l"], True) and (pl["l"] != 1 or pl["p"] == [] or True):
                        # reference created by a mutable borrow (or the receiver itself by value/&mut) escapes
                        if pl["l"] != 1:
                            writes.add(r)
                        elif "move" in a and not f["locals"][1].startswith("&"):
                            pass  # moving a field out of an owned receiver is a read
    _cache[key] = (reads, writes)
    return _cache[key]


def returns_self(F, path):
    f = F.fns.get(path)
    if not f or f["argc"] < 1:
        return False
    ret = f["locals"][0]
    a1 = f["locals"][1]
    if ret == a1:
        return True
    if ret.startswith("std::result::Result<" + a1 + ","):
        return True
    return False


def accessor_ok(F, path):
    f = F.fns.get(path)
    if not f or f["argc"] < 1:
        return False
    return f["locals"][1].startswith("&") and not any(f["locals"][i + 1].startswith("&mut") for i in range(f["argc"]))


def disjoint(F, accessor, mutator):
    if not (accessor_ok(F, accessor) and returns_self(F, mutator)):
        return False
    r, _ = analyse(F, accessor)
    _, w = analyse(F, mutator)
    if "*" in r or "*" in w:
        return False
    return not (r & w)
