"""A3 - finite-domain, path-sensitive abstract interpretation of MIR (python, no solver).

explore(facts, entry, ...) enumerates the *abstract paths* of a function: each
path is the sequence of effects (field writes, non-inlined calls with abstract
arguments, inlined-call enter/exit) together with the constraints on atoms
(enum-valued places, booleans, Option/Result discriminants, results of opaque
calls) that had to hold, the returned abstract value (event vectors are tracked
as words of abstract events) and the final abstract value of every written
field.  Library code is never executed on concrete data; unknown quantities are
terms, branching on a term forks the path and records the constraint, and two
occurrences of the same term on a path get the same truth value.

Calls to methods of the analysed struct (and closures defined in them) are
inlined; every other call is an opaque effect whose result is a term keyed by
callee and argument terms.  Loops are unrolled at most LOOP_K times per path and
higher-order calls taking a local closure run it 0..CLOSURE_K times.
"""
import re
import sys

import frame

sys.setrecursionlimit(10000)

LOOP_K = 1
CLOSURE_K = 1
MAX_PATHS = 400000

BUILTIN_DISCR = {
    "std::option::Option": {0: "None", 1: "Some"},
    "std::result::Result": {0: "Ok", 1: "Err"},
    "std::ops::ControlFlow": {0: "Continue", 1: "Break"},
}


class ExploreError(Exception):
    pass


def UNIT():
    return ("unit",)


def C(bits, ty=None):
    return ("c", bits, ty)


def SYM(t):
    return ("sym", t)


def AGG(adt, variant, ops=()):
    return ("agg", adt, variant, tuple(ops))


def is_sym(v):
    return v[0] == "sym"


def term_depth(t, lim=9):
    if not isinstance(t, tuple) or lim <= 0:
        return 1
    m = 0
    for x in t:
        if isinstance(x, tuple):
            d = term_depth(x, lim - 1)
            if d > m:
                m = d
    return 1 + m


class State:
    __slots__ = ("heap", "cons", "effects", "visits", "trace")

    def __init__(self):
        self.heap = {}      # (root, path) -> value
        self.cons = {}      # term -> ('eq', x) | ('ne', frozenset)
        self.effects = []   # list of effect tuples
        self.visits = {}    # (depth, fn, bb) -> count
        self.trace = []     # (fn, bb) list for replay

    def clone(self):
        s = State()
        s.heap = dict(self.heap)
        s.cons = dict(self.cons)
        s.effects = list(self.effects)
        s.visits = dict(self.visits)
        s.trace = list(self.trace)
        return s


class Frame:
    __slots__ = ("fn", "depth", "bb", "ret_to", "consts", "tsub", "targs_key")

    def __init__(self, fn, depth):
        self.fn = fn
        self.depth = depth
        self.bb = 0
        self.ret_to = None  # (dest place, target bb) in caller
        self.consts = None  # const generic parameters bound at the call (`take::<6>()`): name -> integer
        self.tsub = None    # type parameters bound at the call (`check::<u16>(v)`): name -> concrete type
        self.targs_key = None

    def root(self, local):
        return ("L", self.depth, local)


class Path:
    def __init__(self, st, ret, kind):
        self.effects = st.effects
        self.cons = st.cons
        self.heap = st.heap
        self.ret = ret
        self.kind = kind     # 'return' | 'diverge' | 'cut'
        self.trace = st.trace
        self.outs = {k[0][1]: v for k, v in st.heap.items() if k[0][0] == "out" and k[1] == ()}

    # convenience ---------------------------------------------------------
    def calls(self, pred=None):
        return [e for e in self.effects if e[0] == "call" and (pred is None or pred(e))]

    def writes(self):
        return [e for e in self.effects if e[0] == "write"]

    def events(self):
        """Returned event word if the return value is a tracked vector, else None."""
        if self.ret and self.ret[0] == "vec":
            return self.ret[1]
        if self.ret and self.ret[0] == "unit" and len(self.outs) == 1:
            v = list(self.outs.values())[0]
            if v[0] == "vec":
                return v[1]
        return None


class Explorer:
    def __init__(self, facts, inline_pred=None, loop_k=LOOP_K, closure_k=CLOSURE_K, max_paths=MAX_PATHS,
                 opaque_hook=None, stub_pred=None, skip_macros=("trace!", "debug!", "info!", "warn!", "error!")):
        self.F = facts
        self.inline_pred = inline_pred or default_inline
        self.loop_k = loop_k
        self.closure_k = closure_k
        self.max_paths = max_paths
        self.paths = []
        self.opaque_hook = opaque_hook
        self.stub_pred = stub_pred
        self.skip_macros = skip_macros
        self.blockmaps = {}
        self.interned = {}
        self.interned_rev = {}
        self._from_cache = {}
        self.stats = {"forks": 0, "steps": 0, "inlined": set(), "opaque": set()}

    # ------------------------------------------------------------------ util
    def blocks(self, fn):
        bm = self.blockmaps.get(fn["path"])
        if bm is None:
            bm = {b["i"]: b for b in fn["blocks"]}
            self.blockmaps[fn["path"]] = bm
        return bm

    # -------------------------------------------------------------- memory
    # ---- members of a private helper struct held in a field of the connection are addressed as (virtual) fields of the
    #      connection itself (facts.flatten_gc_structs): one spelling for `self.quota.limit`, however it is reached
    def flat_path(self, root, path):
        fl = getattr(self.F, "flat", None)
        if fl and root == ("self",) and len(path) >= 2 and path[0][0] == "f" and path[1][0] == "f" and (path[0][1], path[1][1]) in fl:
            n_, nm_ = fl[(path[0][1], path[1][1])]
            return (("f", n_, nm_),) + tuple(path[2:])
        return path

    def flat_whole(self, root, path):
        fs = getattr(self.F, "flat_struct", None)
        if fs and root == ("self",) and len(path) == 1 and path[0][0] == "f" and path[0][1] in fs:
            return fs[path[0][1]]
        return None

    def read_loc(self, st, root, path):
        if root == ("self",) and getattr(self.F, "flat", None):
            path = self.flat_path(root, path)
            wh = self.flat_whole(root, path)
            if wh is not None:
                return ("agg", wh["adt"], wh["variant"], tuple(self.read_loc(st, root, (("f", n_, nm_),)) for (j_, n_, nm_) in wh["members"]))
        h = st.heap
        key = (root, path)
        if key in h:
            return h[key]
        # longest stored strict prefix
        for n in range(len(path) - 1, -1, -1):
            k = (root, path[:n])
            if k in h:
                v = h[k]
                for el in path[n:]:
                    v = self.project_val(st, v, el)
                return v
        if root[0] == "L":
            return SYM(("uninit", root, path))
        # one spelling for the payload of an enum-typed location: field(init(loc), i), which is also what a copy of the
        # location followed by a pattern match / unwrap produces
        for i, el in enumerate(path):
            if el[0] == "dc":
                v = SYM(("init", root, path[:i]))
                for el2 in path[i:]:
                    v = self.project_val(st, v, el2)
                return v
        return SYM(("init", root, path))

    def flat_writes(self, st, root, path, val):
        """[(path, value)] a write to (root, path) amounts to, in terms of virtual fields."""
        if root == ("self",) and getattr(self.F, "flat", None):
            path = self.flat_path(root, path)
            wh = self.flat_whole(root, path)
            if wh is not None:
                out = []
                for (j_, n_, nm_) in wh["members"]:
                    if val[0] == "agg" and j_ < len(val[3]):
                        v_ = val[3][j_]
                    elif val[0] == "sym":
                        v_ = SYM(self.cap(("field", val[1], j_)))
                    else:
                        v_ = SYM(("field", val, j_))
                    out.append(((("f", n_, nm_),), v_))
                return out
        return [(path, val)]

    def write_loc(self, st, root, path, val):
        if root == ("self",) and getattr(self.F, "flat", None):
            ws = self.flat_writes(st, root, path, val)
            if len(ws) != 1 or ws[0][0] != path:
                for p_, v_ in ws:
                    self.write_loc(st, root, p_, v_)
                return
        h = st.heap
        # drop sub-entries
        for k in [k for k in h if k[0] == root and len(k[1]) > len(path) and k[1][:len(path)] == path]:
            del h[k]
        # update a stored aggregate prefix if any
        for n in range(len(path) - 1, -1, -1):
            k = (root, path[:n])
            if k in h:
                pv = h[k]
                nv = self.update_val(pv, path[n:], val)
                if nv is not None:
                    h[k] = nv
                    return
                # prefix value not updatable: materialise as separate entry
                break
        h[(root, path)] = val

    def update_val(self, pv, rest, val):
        if not rest:
            return val
        el = rest[0]
        if pv[0] == "agg" and el[0] == "f":
            ops = list(pv[3])
            i = el[1]
            if i < len(ops):
                nv = self.update_val(ops[i], rest[1:], val)
                if nv is None:
                    return None
                ops[i] = nv
                return ("agg", pv[1], pv[2], tuple(ops))
        if pv[0] == "tup" and el[0] == "f":
            ops = list(pv[1])
            i = el[1]
            if i < len(ops):
                nv = self.update_val(ops[i], rest[1:], val)
                if nv is None:
                    return None
                ops[i] = nv
                return ("tup", tuple(ops))
        if pv[0] == "agg" and el[0] == "dc":
            return self.update_val(pv, rest[1:], val)
        if pv[0] == "arr" and el[0] == "ci" and isinstance(el[1], int) and 0 <= el[1] < len(pv[1]):
            ops = list(pv[1])
            nv = self.update_val(ops[el[1]], rest[1:], val)
            if nv is None:
                return None
            ops[el[1]] = nv
            return ("arr", tuple(ops))
        return None

    def project_val(self, st, v, el):
        """Project a value by one path element ('f', idx, name) / ('dc', variant)."""
        if el[0] == "dc":
            return v
        if el[0] == "f":
            i = el[1]
            if v[0] == "agg":
                if i < len(v[3]):
                    return v[3][i]
                return SYM(("field", v, i))
            if v[0] == "tup":
                if i < len(v[1]):
                    return v[1][i]
            if v[0] == "closure":
                if i < len(v[2]):
                    return v[2][i]
            if v[0] == "sym":
                nm = el[2] if len(el) > 2 else None
                return SYM(self.cap(("field", v[1], i if (nm is None or str(nm).isdigit()) else nm)))
            return SYM(("field", v, i))
        if el[0] == "ci":
            if v[0] == "arr" and isinstance(el[1], int) and 0 <= el[1] < len(v[1]):
                return v[1][el[1]]
            if v[0] == "sym":
                return SYM(self.cap(("index", v[1], el[1])))
            return SYM(("index", v, el[1]))
        if el[0] == "idx":
            if v[0] == "sym":
                return SYM(self.cap(("index", v[1])))
            return SYM(("index", v))
        return SYM(("proj", v, el))

    def cap(self, t):
        """Bound term size without identifying distinct terms: deep sub-terms are interned."""
        if term_depth(t) <= 6:
            return t
        return self.shrink(t)

    def shrink(self, t):
        out = []
        for x in t:
            if isinstance(x, tuple) and x:
                if isinstance(x[0], str):
                    out.append(self.intern(x) if term_depth(x) > 3 else x)
                else:
                    out.append(self.shrink(x))   # plain tuple of nodes (argument list): keep its shape
            else:
                out.append(x)
        return tuple(out)

    def intern(self, t):
        i = self.interned.get(t)
        if i is None:
            i = len(self.interned)
            self.interned[t] = i
            self.interned_rev[i] = t
        return ("#", i)

    def resolve_place(self, st, fr, place):
        """Return ('loc', root, path) or ('val', value) for a MIR place."""
        root = fr.root(place["l"])
        path = ()
        cur_val = None  # when we are inside a value rather than a location
        pending_dc = None
        for el in place["p"]:
            if el == "*":
                v = cur_val if cur_val is not None else self.read_loc(st, root, path)
                cur_val = None
                if v[0] == "ref":
                    root, path = v[1], v[2]
                elif v[0] == "sym":
                    root, path = ("D", v[1]), ()
                elif v[0] == "closure":
                    # `&mut closure` passed by value into a higher-order call: deref is the closure itself
                    pass
                elif v[0] in ("boxuninit", "boxarr", "box"):
                    # Box local: the box's storage is the local itself
                    path = path + (("box",),)
                else:
                    root, path = ("D", v), ()
                continue
            if "f" in el and isinstance(el, dict):
                pe = ("f", el["f"], el.get("n"))
            elif "dc" in el:
                pe = ("dc", el["dc"])
            elif "idx" in el:
                iv = self.read_loc(st, fr.root(el["idx"]), ())
                pe = ("ci", iv[1]) if iv[0] == "c" else ("idx",)
            elif "ci" in el and not el.get("fe"):
                pe = ("ci", el["ci"])
            elif "ci" in el:
                pe = ("idx",)
            elif "sub" in el:
                # slice pattern `[a, b, rest @ ..]`: rest is base[from..] / base[from..len-to] / base[from..to]
                if cur_val is not None:
                    basev = cur_val
                elif root[0] == "D" and not path:
                    basev = SYM(root[1])
                else:
                    basev = ("ref", root, path)
                frm, to = el["sub"]
                USZ = "usize"
                if el.get("fe") and to == 0:
                    rng = AGG("std::ops::RangeFrom", "RangeFrom", (C(frm, USZ),))
                elif el.get("fe"):
                    rng = AGG("std::ops::Range", "Range", (C(frm, USZ), self.binop(st, "Sub", SYM(self.cap(("len", basev))), C(to, USZ))))
                else:
                    rng = AGG("std::ops::Range", "Range", (C(frm, USZ), C(to, USZ)))
                cur_val = SYM(self.cap(("call", "std::slice::index::<impl std::ops::Index<I> for [T]>::index", (basev, rng))))
                continue
            else:
                pe = ("other",)
            if cur_val is not None:
                cur_val = self.project_val(st, cur_val, pe)
            else:
                path = path + (pe,)
        if cur_val is not None:
            return ("val", cur_val)
        return ("loc", root, path)

    def norm_path(self, root, path):
        # self object fields are addressed by name; strip downcasts for Option payloads kept
        return root, path

    def read_place(self, st, fr, place):
        r = self.resolve_place(st, fr, place)
        if r[0] == "val":
            return r[1]
        return self.read_loc(st, r[1], r[2])

    def write_place(self, st, fr, place, val, site):
        r = self.resolve_place(st, fr, place)
        if r[0] == "val":
            return
        root, path = r[1], r[2]
        if root[0] != "L":
            for p_, v_ in self.flat_writes(st, root, path, val):
                st.effects.append(("write", root, p_, v_, site))
        self.write_loc(st, root, path, val)

    # ----------------------------------------------------------- operands
    def const_val(self, c):
        if "fn" in c:
            res = c["fn"].get("res")
            ta = tuple(c["fn"].get("targs") or ())
            if res and res.get("path") in self.F.fns:
                return ("fn", res["path"], ta)
            return ("fn", c["fn"]["path"], ta)
        if "variant" in c:
            ty = c["ty"].split("<")[0]
            return AGG(ty, c["variant"])
        if "bits" in c:
            if "int" in c:
                return C(c["int"], c["ty"])
            return C(c["bits"], c["ty"])
        if c.get("ty") == "()":
            return UNIT()
        # a named constant of the crate: the value its initialiser evaluates to (e.g. `const N: usize = size_of::<Buffer>()`)
        nm = c.get("s", "?")
        g = self.F.fns.get(nm)
        if g is not None and g.get("kind") in ("Const", "AssocConst"):
            cache = self.__dict__.setdefault("_const_cache", {})
            if nm not in cache:
                cache[nm] = None          # recursion guard
                try:
                    sub = Explorer(self.F, inline_pred=self.inline_pred)
                    sub.interned, sub.interned_rev = self.interned, self.interned_rev
                    rets = [p_.ret for p_ in sub.run(nm) if p_.kind == "return"]
                    if len(rets) == 1 and rets[0] is not None and rets[0][0] in ("c", "sym", "agg", "arr"):
                        cache[nm] = rets[0]
                except Exception:
                    cache[nm] = None
            if cache.get(nm) is not None:
                return cache[nm]
        return SYM(("const", nm))

    def operand_ty(self, fn, op):
        pl = op.get("copy") or op.get("move")
        if pl is not None and not pl["p"]:
            return fn["locals"][pl["l"]]
        if "const" in op:
            return op["const"].get("ty")
        return None

    def operand(self, st, fr, op):
        if "copy" in op:
            return self.read_place(st, fr, op["copy"])
        if "move" in op:
            return self.read_place(st, fr, op["move"])
        if "const" in op:
            c = op["const"]
            if fr.consts and "bits" not in c and c.get("s") in fr.consts:
                return C(fr.consts[c["s"]], c.get("ty"))      # a const generic parameter bound at the inlined call
            if fr.tsub and "bits" not in c and isinstance(c.get("s"), str) and c["s"].startswith("<"):
                # `<T as Trait>::CONST` with T bound: the value the implementing type gives the constant
                mc = re.match(r"^<(\w+) as ([\w:]+)(?:<.*>)?>::(\w+)$", c["s"])
                if mc and mc.group(1) in fr.tsub:
                    v_ = self.assoc_const(mc.group(2), fr.tsub[mc.group(1)], mc.group(3))
                    if v_ is not None:
                        return C(v_, c.get("ty"))
            return self.const_val(c)
        return SYM(("op?",))

    # ------------------------------------------------------- constraints
    def lookup_cons(self, st, t):
        return st.cons.get(t)

    def domain(self, t):
        """Finite domain of a term if known (list of values) else None."""
        if t[0] == "bin" and t[1] == "BitAnd":
            for m in (t[2], t[3]):
                if m[0] == "c" and isinstance(m[1], int) and 0 <= m[1] <= 255:
                    return [x for x in range(m[1] + 1) if (x & m[1]) == x]
        if t[0] == "discr":
            adt = t[2]
            if adt in BUILTIN_DISCR:
                return list(BUILTIN_DISCR[adt].keys())
            a = self.F.adts.get(adt)
            if a and a["kind"] == "enum":
                return [v["discr"] for v in a["variants"]]
        return None

    def constrain(self, st, t, op, val):
        """Add t == val / t != val. Return False if inconsistent."""
        c = st.cons.get(t)
        if op == "eq":
            if c is not None:
                if c[0] == "eq":
                    return c[1] == val
                if val in c[1]:
                    return False
            st.cons[t] = ("eq", val)
            return True
        else:
            if c is not None:
                if c[0] == "eq":
                    return c[1] != val
                s = c[1] | {val}
            else:
                s = frozenset([val])
            dom = self.domain(t)
            if dom is not None:
                rest = [d for d in dom if d not in s]
                if not rest:
                    return False
                if len(rest) == 1:
                    st.cons[t] = ("eq", rest[0])
                    return True
            st.cons[t] = ("ne", s)
            return True

    def bool_atom(self, v):
        """Normalise a boolean value into (term, polarity) or a constant bool."""
        pol = True
        while True:
            if v[0] == "c":
                return (v[1] != 0) == pol
            if v[0] != "sym":
                return (("val", v), pol)
            t = v[1]
            if t[0] == "not":
                pol = not pol
                v = t[1]
                continue
            if t[0] == "cmp":
                op, a, b = t[1], self.unintern(t[2]), self.unintern(t[3])
                t = ("cmp", op, a, b)
                if op == "Ne":
                    pol = not pol
                    t = ("cmp", "Eq", a, b)
                elif op == "Ge":
                    pol = not pol
                    t = ("cmp", "Lt", a, b)
                elif op == "Le":
                    pol = not pol
                    t = ("cmp", "Lt", b, a)
                elif op == "Gt":
                    t = ("cmp", "Lt", b, a)
                if t[1] == "Eq":
                    # canonical operand order
                    if repr(t[2]) > repr(t[3]):
                        t = ("cmp", "Eq", t[3], t[2])
            return (t, pol)

    def unintern(self, v):
        """One level of un-interning (operands of comparison atoms must stay inspectable)."""
        while isinstance(v, tuple) and len(v) == 2 and v[0] == "#" and isinstance(v[1], int):
            v = self.interned_rev.get(v[1], v)
        return v

    def eval_bool(self, st, v):
        """Return True/False if decided under constraints, else (term, pol)."""
        a = self.bool_atom(v)
        if isinstance(a, bool):
            return a
        t, pol = a
        # enum equality atoms
        if t[0] == "enum_eq":
            tt, adt, var = t[1], t[2], t[3]
            c = st.cons.get(("discr", tt, adt))
            d = self.variant_discr(adt, var)
            if c is not None:
                if c[0] == "eq":
                    return (c[1] == d) == pol
                if d in c[1]:
                    return (False) == pol
            return (t, pol)
        c = st.cons.get(t)
        if c is not None and c[0] == "eq":
            return (c[1] == 1) == pol
        if t[0] == "cmp" and t[1] == "Eq":
            # x == const under a constraint x == other / x != const
            for (x, y) in ((t[2], t[3]), (t[3], t[2])):
                if y[0] == "c" and x[0] == "sym":
                    cx = st.cons.get(x[1])
                    if cx is not None:
                        if cx[0] == "eq":
                            return (cx[1] == y[1]) == pol
                        if y[1] in cx[1]:
                            return False == pol
        return (t, pol)

    def assume_bool(self, st, atom, truth):
        """Constrain atom (term,pol) to have value `truth`. Returns False if inconsistent."""
        t, pol = atom
        val = truth == pol
        if t[0] == "enum_eq":
            tt, adt, var = t[1], t[2], t[3]
            d = self.variant_discr(adt, var)
            return self.constrain(st, ("discr", tt, adt), "eq" if val else "ne", d)
        if t[0] == "cmp" and t[1] == "Eq":
            for (x, y) in ((t[2], t[3]), (t[3], t[2])):
                if y[0] == "c" and x[0] == "sym":
                    if not self.constrain(st, x[1], "eq" if val else "ne", y[1]):
                        return False
                    break
        return self.constrain(st, t, "eq", 1 if val else 0)

    def variant_discr(self, adt, var):
        if adt in BUILTIN_DISCR:
            for d, n in BUILTIN_DISCR[adt].items():
                if n == var:
                    return d
        a = self.F.adts.get(adt)
        if a:
            for v in a["variants"]:
                if v["name"] == var:
                    return v.get("discr", v["idx"])
        raise ExploreError("unknown variant %s::%s" % (adt, var))

    def discr_variant(self, adt, d):
        if adt in BUILTIN_DISCR:
            return BUILTIN_DISCR[adt].get(d)
        a = self.F.adts.get(adt)
        if a:
            for v in a["variants"]:
                if v.get("discr", v["idx"]) == d:
                    return v["name"]
        return None

    # --------------------------------------------------------------- rvalue
    def rvalue(self, st, fr, rv):
        k = rv["k"]
        if k == "use":
            v = self.operand(st, fr, rv["op"])
            pl = rv["op"].get("move") or rv["op"].get("copy")
            if v[0] == "sym" and pl is not None and not pl["p"]:
                # a whole struct local moved / copied after some of its fields were assigned (`self.x = ..; self`): the value
                # is the struct with those fields replaced - materialised so that the updates travel with it
                root = fr.root(pl["l"])
                subs = [(kk[1], vv) for kk, vv in st.heap.items() if kk[0] == root and kk[1]]
                if subs:
                    adt = fr.fn["locals"][pl["l"]].split("<")[0]
                    a = self.F.adts.get(adt)
                    if a and a.get("kind") == "struct" and a.get("variants"):
                        fs = a["variants"][0]["fields"]
                        vals = [SYM(self.cap(("field", v[1], i))) for i in range(len(fs))]
                        okm = True
                        for pth, vv in sorted(subs, key=lambda x: len(x[0])):
                            if pth[0][0] != "f" or pth[0][1] >= len(vals):
                                okm = False
                                break
                            if len(pth) == 1:
                                vals[pth[0][1]] = vv
                            else:
                                nv = self.update_val(vals[pth[0][1]], pth[1:], vv)
                                if nv is None:
                                    okm = False
                                    break
                                vals[pth[0][1]] = nv
                        if okm:
                            return ("agg", adt, a["variants"][0]["name"], tuple(vals))
            return v
        if k == "ref" or k == "rawptr":
            r = self.resolve_place(st, fr, rv["place"])
            if r[0] == "val":
                v = r[1]
                if v[0] == "sym" and v[1][0] == "call" and v[1][1].endswith("::index"):
                    return v        # a reference to a sub-slice is represented by the slice term itself
                return SYM(("refval", r[1]))
            if r[1] and r[1][0] == "L" and not r[2] and not rv.get("mut"):
                v0 = st.heap.get((r[1], ()))
                if v0 is not None and v0[0] == "arr" and all(x[0] == "c" for x in v0[1]):
                    # `&[..]` of constants: promoted to a static after this MIR phase - the reference outlives the
                    # temporary and the frame (`buf.get(n..).unwrap_or(&[])` returned from a helper)
                    root = ("PROM", fr.fn["path"], r[1][2], fr.depth)
                    st.heap[(root, ())] = v0
                    return ("ref", root, ())
            return ("ref", r[1], r[2])
        if k == "agg":
            ops = tuple(self.operand(st, fr, o) for o in rv["ops"])
            if "adt" in rv:
                fs_ = getattr(self.F, "flat_struct", None)
                if fs_ and rv["adt"] == "mqtt::connection::core::GenericConnection":
                    extra = []
                    for i_, inf in sorted(fs_.items()):
                        sv = ops[i_] if i_ < len(ops) else None
                        for (j_, n_, nm_) in inf["members"]:
                            if sv is not None and sv[0] == "agg" and j_ < len(sv[3]):
                                extra.append((n_, sv[3][j_]))
                            elif sv is not None and sv[0] == "sym":
                                extra.append((n_, SYM(self.cap(("field", sv[1], j_)))))
                            else:
                                extra.append((n_, SYM(("field", sv, j_))))
                    ops = list(ops)
                    for n_, v_ in sorted(extra):
                        while len(ops) < n_:
                            ops.append(SYM(("novalue",)))
                        ops.append(v_)
                    ops = tuple(ops)
                return AGG(rv["adt"], rv["variant"], ops)
            if rv.get("tuple"):
                if not ops:
                    return UNIT()
                return ("tup", ops)
            if "closure" in rv:
                return ("closure", rv["closure"], ops)
            if "array" in rv:
                return ("arr", ops)
            return SYM(("agg?",))
        if k == "discr":
            v = self.read_place(st, fr, rv["place"])
            adt = rv.get("adt")
            if v[0] == "agg":
                return C(self.variant_discr(v[1], v[2]) if (v[1] in BUILTIN_DISCR or v[1] in self.F.adts) else 0)
            if v[0] == "sym":
                t = ("discr", v[1], adt)
                c = st.cons.get(t)
                if c is not None and c[0] == "eq":
                    return C(c[1])
                return SYM(t)
            return SYM(("discr", v, adt))
        if k == "bin":
            a = self.operand(st, fr, rv["a"])
            b = self.operand(st, fr, rv["b"])
            op = rv["op"]
            return self.binop(st, op, a, b)
        if k == "un":
            a = self.operand(st, fr, rv["a"])
            if rv["op"] == "Not":
                if a[0] == "c":
                    if a[2] in (None, "bool"):
                        return C(0 if a[1] else 1)
                    rng = int_range(a[2]) if isinstance(a[1], int) else None
                    if rng and rng[0] == 0 and rng[1] is not None:
                        return C(~a[1] & rng[1], a[2])         # bitwise complement of an unsigned constant
                    return SYM(("not", a))
                return SYM(("not", a))
            if rv["op"] == "PtrMetadata":
                av = self.read_loc(st, a[1], a[2]) if a[0] == "ref" else a
                if av[0] == "arr":
                    return C(len(av[1]), "usize")        # length of a slice that is a known array
                return SYM(self.cap(("len", a)))
            return SYM(self.cap(("un", rv["op"], a)))
        if k == "cast":
            a = self.operand(st, fr, rv["op"])
            if a[0] == "c":
                return C(a[1], rv["ty"])
            if a[0] in ("ref", "closure", "fn"):
                return a
            if "Unsize" in rv["ck"] or "PointerCoercion" in rv["ck"]:
                return a
            return SYM(self.cap(("cast", a, rv["ty"], self.operand_ty(fr.fn, rv["op"]))))
        if k == "repeat":
            n_ = rv.get("n")
            if isinstance(n_, str) and fr.consts and n_ in fr.consts:
                n_ = fr.consts[n_]
            if isinstance(n_, str) and n_.isdigit():
                n_ = int(n_)
            if isinstance(n_, int) and n_ <= 64 and "op" in rv:
                return ("arr", tuple(self.operand(st, fr, rv["op"]) for _ in range(n_)))
            return SYM(("repeat",))
        return SYM(("rv?", k))

    def binop(self, st, op, a, b):
        cmpops = ("Eq", "Ne", "Lt", "Le", "Gt", "Ge")
        if a[0] == "c" and b[0] == "c" and isinstance(a[1], int) and isinstance(b[1], int):
            x, y = a[1], b[1]
            r = {"Eq": x == y, "Ne": x != y, "Lt": x < y, "Le": x <= y, "Gt": x > y, "Ge": x >= y}.get(op)
            if r is not None:
                return C(1 if r else 0, "bool")
            base = op.replace("WithOverflow", "").replace("Unchecked", "")
            val = None
            if base == "Add":
                val = x + y
            elif base == "Sub":
                val = x - y
            elif base == "Mul":
                val = x * y
            elif base == "BitAnd":
                val = x & y
            elif base == "BitOr":
                val = x | y
            elif base == "BitXor":
                val = x ^ y
            elif base == "Shl":
                val = x << y if 0 <= y < 128 else None
            elif base == "Shr":
                val = x >> y if 0 <= y < 128 else None
            elif base == "Div" and y != 0:
                val = x // y
            elif base == "Rem" and y != 0:
                val = x % y
            if val is not None:
                lo, hi = int_range(a[2])
                ovf = not (lo <= val <= hi)
                if ovf and hi is not None:
                    width = hi - lo + 1
                    val = (val - lo) % width + lo
                r = C(val, a[2])
                if op.endswith("WithOverflow"):
                    return ("tup", (r, C(1 if ovf else 0, "bool")))
                if ovf and base in ("Add", "Sub", "Mul"):
                    return SYM(self.cap(("bin", op, a, b)))   # unchecked op that would overflow: leave symbolic
                return r
        if op in cmpops:
            return SYM(self.cap(("cmp", op, a, b)))
        if op.endswith("WithOverflow"):
            base = op[:-len("WithOverflow")]
            t = self.cap(("bin", base, a, b))
            return ("tup", (SYM(t), SYM(("ovf", t))))
        return SYM(self.cap(("bin", op, a, b)))

    # ------------------------------------------------------------ driving
    def run(self, entry_path, setup=None, tsub=None):
        """tsub: bindings of the entry function's type parameters (`{"T": "mqtt::packet::v5_0::connect::Connect"}`): the
        generic body is explored as instantiated at those types (associated constants and trait methods resolve)."""
        fn = self.F.fn(entry_path)
        st = State()
        fr = Frame(fn, 0)
        fr.tsub = dict(tsub) if tsub else None
        self.init_args(st, fr)
        if setup:
            setup(self, st, fr)
        self.paths = []
        self.work = [(st, [fr])]
        while self.work:
            st, stack = self.work.pop()
            self.step_until_fork(st, stack)
            if len(self.paths) > self.max_paths:
                raise ExploreError("path budget exceeded in %s" % entry_path)
        return self.paths

    def init_args(self, st, fr):
        fn = fr.fn
        names = fn.get("names", {})
        for i in range(1, fn["argc"] + 1):
            ty = fn["locals"][i]
            nm = names.get(str(i), "arg%d" % i)
            root = fr.root(i)
            if nm == "self" and ty.startswith("&"):
                st.heap[(root, ())] = ("ref", ("self",), ())
            elif ty.startswith("&mut std::vec::Vec<mqtt::connection::event::GenericEvent"):
                out = ("out", nm)
                st.heap[(out, ())] = ("vec", ())
                st.heap[(root, ())] = ("ref", out, ())
            elif ty.startswith("&"):
                obj = ("arg", nm)
                st.heap[(root, ())] = ("ref", obj, ())
            else:
                st.heap[(root, ())] = SYM(("arg", nm))

    def finish_path(self, st, ret, kind):
        self.paths.append(Path(st, ret, kind))

    def step_until_fork(self, st, stack):
        """Run one state forward; forks push continuation states on self.work."""
        while True:
            fr = stack[-1]
            fn = fr.fn
            bm = self.blocks(fn)
            b = bm[fr.bb]
            key = (fr.depth, fn["path"], fr.bb)
            n = st.visits.get(key, 0) + 1
            st.visits[key] = n
            if n > self.loop_k + 1:
                self.finish_path(st, None, "cut")
                return
            st.trace.append((fn["path"], fr.bb))
            self.stats["steps"] += 1
            for s in b["stmts"]:
                k = s["k"]
                if k == "assign":
                    site = (fn["path"], s.get("line"))
                    val = self.rvalue(st, fr, s["rv"])
                    lhs = s["lhs"]
                    # vec! expansion: write of an array through a fresh (uninit) box
                    if val[0] == "arr" and lhs["p"] and lhs["p"][0] == "*" and \
                            self.read_loc(st, fr.root(lhs["l"]), ())[0] == "boxuninit":
                        self.write_loc(st, fr.root(lhs["l"]), (), ("boxarr", val[1]))
                    else:
                        self.write_place(st, fr, lhs, val, site)
                elif k == "dead":
                    root = fr.root(s["l"])
                    v0 = st.heap.get((root, ()))
                    if v0 is not None and v0[0] == "arr" and all(x[0] == "c" for x in v0[1]):
                        # a constant array literal borrowed as `&[..]` is promoted to a static after this MIR phase: the
                        # reference taken before StorageDead stays valid (`opt.map_or(&[], ..)`)
                        continue
                    for kk in [kk for kk in st.heap if kk[0] == root]:
                        del st.heap[kk]
                elif k == "setdiscr":
                    pass
            t = b["term"]
            tk = t["k"]
            if tk == "goto" or tk == "drop":
                fr.bb = t["t"]
                continue
            if tk == "return":
                ret = self.read_loc(st, fr.root(0), ())
                # pop frame
                root_prefix = ("L", fr.depth)
                for kk in [kk for kk in st.heap if kk[0][0] == "L" and kk[0][1] == fr.depth]:
                    del st.heap[kk]
                for kk in [kk for kk in st.visits if kk[0] == fr.depth]:
                    del st.visits[kk]
                stack.pop()
                if not stack:
                    self.finish_path(st, ret, "return")
                    return
                st.effects.append(("exit", fn["path"], ret))
                caller = stack[-1]
                dest, target, cont = fr.ret_to
                if cont is not None:
                    # closure repetition / post-processing continuation
                    r = cont(st, stack, ret)
                    if r == "stop":
                        return
                    continue
                if dest is not None:
                    self.write_place(st, caller, dest, ret, (caller.fn["path"], None))
                if target is None:
                    self.finish_path(st, None, "diverge")
                    return
                caller.bb = target
                continue
            if tk == "unreachable" or tk == "resume" or tk == "terminate":
                self.finish_path(st, None, "diverge")
                return
            if tk == "assert":
                cv = self.operand(st, fr, t["cond"])
                site = (fn["path"], t.get("line"))
                ev = self.eval_bool(st, cv) if cv[0] in ("c", "sym") else None
                if isinstance(ev, bool):
                    if ev == t["expected"]:
                        st.effects.append(("assert", t["msg"]["k"], site, "discharged", None))
                        fr.bb = t["t"]
                        continue
                    st.effects.append(("assert", t["msg"]["k"], site, "fails", None))
                    self.finish_path(st, None, "panic")
                    return
                # undecided: the success edge is followed under the assumption; the obligation is recorded
                ops = tuple(self.operand(st, fr, t["msg"][k]) for k in ("a", "b", "len", "index") if k in t["msg"])
                tys = tuple((t["msg"].get(k + "ty") or self.operand_ty(fn, t["msg"][k])) for k in ("a", "b", "len", "index") if k in t["msg"])
                st.effects.append(("assert", t["msg"]["k"], site, "open", (t["msg"].get("op"), cv, ops, tys), dict(st.cons)))
                if ev is not None:
                    self.assume_bool(st, ev, t["expected"])
                fr.bb = t["t"]
                continue
            if tk == "switch":
                v = self.operand(st, fr, t["discr"])
                targets = t["targets"]
                if v[0] == "c":
                    for val, bb in targets:
                        if val == v[1]:
                            fr.bb = bb
                            break
                    else:
                        fr.bb = t["otherwise"]
                    continue
                succ = self.switch_succ(st, v, t)
                if not succ:
                    self.finish_path(st, None, "diverge")
                    return
                self.stats["forks"] += len(succ) - 1
                for (st2, bb) in succ[1:]:
                    stack2 = self.clone_stack(stack)
                    stack2[-1].bb = bb
                    self.work.append((st2, stack2))
                st, bb = succ[0]
                fr.bb = bb
                continue
            if tk == "call":
                r = self.do_call(st, stack, fr, t)
                if r == "stop":
                    return
                if r is None and stack[-1] is fr:
                    raise ExploreError("call handler returned None")
                if isinstance(r, tuple) and r[0] == "fork":
                    # list of (state, stack)
                    alts = r[1]
                    for (s2, k2) in alts[1:]:
                        self.work.append((s2, k2))
                    st, stack = alts[0]
                continue
            raise ExploreError("unhandled terminator %s in %s" % (tk, fn["path"]))

    def clone_stack(self, stack):
        out = []
        for f in stack:
            g = Frame(f.fn, f.depth)
            g.bb = f.bb
            g.ret_to = f.ret_to
            g.consts = f.consts
            g.tsub = f.tsub
            g.targs_key = f.targs_key
            out.append(g)
        return out

    def switch_succ(self, st, v, t):
        """Feasible successors of a switch on symbolic value v: list of (state, bb)."""
        out = []
        targets = t["targets"]
        term = v[1] if v[0] == "sym" else ("val", v)
        is_bool = t.get("dty") == "bool"
        if is_bool:
            ev = self.eval_bool(st, v)
            if isinstance(ev, bool):
                want = 1 if ev else 0
                for val, bb in targets:
                    if val == want:
                        return [(st, bb)]
                return [(st, t["otherwise"])]
            # fork both
            # targets are usually [(0, bbF)] otherwise bbT
            vals = [val for val, _ in targets]
            cases = [(val, bb) for val, bb in targets]
            other_vals = [x for x in (0, 1) if x not in vals]
            for x in other_vals:
                cases.append((x, t["otherwise"]))
            first = True
            for val, bb in cases:
                s2 = st.clone()
                if self.assume_bool(s2, ev, val == 1):
                    out.append((s2, bb))
            return out
        # enum discriminant or integer term
        c = st.cons.get(term)
        if c is not None and c[0] == "eq":
            for val, bb in targets:
                if val == c[1]:
                    return [(st, bb)]
            return [(st, t["otherwise"])]
        excluded = c[1] if c is not None else frozenset()
        for val, bb in targets:
            if val in excluded:
                continue
            s2 = st.clone()
            if self.constrain(s2, term, "eq", val):
                out.append((s2, bb))
        # otherwise: all listed values excluded
        s2 = st.clone()
        ok = True
        for val, _ in targets:
            if not self.constrain(s2, term, "ne", val):
                ok = False
                break
        if ok:
            # if the domain collapsed to a single value that is one of the targets it's infeasible already
            # an `otherwise` leading to an unreachable block is dropped
            out.append((s2, t["otherwise"]))
        return out

    def blocks_of_state_fn_unreachable(self, t):
        return t.get("_otherwise_unreachable", False)

    # ---------------------------------------------------------------- calls
    def callee_info(self, st, fr, t):
        f = t["func"]
        if "const" in f and "fn" in f["const"]:
            info = f["const"]["fn"]
            res = info.get("res")
            path = res["path"] if res else info["path"]
            return info, path
        return None, None

    def do_call(self, st, stack, fr, t):
        info, path = self.callee_info(st, fr, t)
        self._cur_mut_sig = sig_mut_indices(t)
        site = (fr.fn["path"], t.get("line"))
        args = [self.operand(st, fr, a) for a in t["args"]]
        dest, target = t["dest"], t["t"]
        if info is not None and fr.tsub and info.get("targs") and any(t_ in fr.tsub for t_ in info["targs"]):
            # inside an inlined generic helper instantiated at a primitive type: `T::default()` is `u16::default()`
            info = dict(info)
            info["targs"] = [fr.tsub.get(t_, t_) for t_ in info["targs"]]
        if info is not None and fr.consts and info.get("targs") and any(re.search(r"\[[^\]]*; [A-Za-z_]\w*\]", t_) for t_ in info["targs"]):
            # an array type whose length is a const parameter bound at the inlined call: `[u8; N]` with N = 6 is `[u8; 6]`
            def _sub(m_):
                return "; %d]" % fr.consts[m_.group(1)] if m_.group(1) in fr.consts else m_.group(0)
            info = dict(info)
            info["targs"] = [re.sub(r"; ([A-Za-z_]\w*)\]", _sub, t_) for t_ in info["targs"]]
        if info is not None and info.get("trait") and not info.get("res") and info.get("targs") and info["path"].startswith("mqtt::"):
            # a call to a method of an in-crate trait that the generic body could not resolve (`self.part()` inside a provided
            # method): with `Self` bound by the inlined call it is the impl's method, or the trait's provided one
            selfty = info["targs"][0]
            tgt = self.resolve_trait_method(info["trait"], info.get("name"), selfty)
            if tgt is not None:
                info = dict(info)
                info["res"] = {"path": tgt}
                path = tgt
        if info is None:
            # call through a function pointer: when the pointer's value is known on this path (a reified fn item or a
            # non-capturing closure coerced to `fn(..)`, passed down by an inlined caller), the call goes to that body
            fv = self.operand(st, fr, t["func"]) if isinstance(t["func"], dict) and ("move" in t["func"] or "copy" in t["func"]) else ("?",)
            if fv[0] == "ref":
                fv = self.read_loc(st, fv[1], fv[2])
            if fv[0] == "closure" and fv[1] in self.F.fns and len(stack) < 12:
                return self.enter(st, stack, fr, self.F.fns[fv[1]], [fv] + args, dest, target, None, closure=True)
            if fv[0] == "fn" and fv[1] in self.F.fns and len(stack) < 12:
                cf = self.F.fns[fv[1]]
                info = {"path": fv[1], "name": cf.get("name"), "targs": list(fv[2]) if len(fv) > 2 else [], "local": True, "impl_self": cf.get("impl_self", "")}
                path = fv[1]
                self._cur_mut_sig = tuple(i for i in range(cf.get("argc", 0)) if cf["locals"][i + 1].startswith("&mut "))
            else:
                self.opaque_call(st, fr, "<indirect>", args, dest, site, None)
                return self.after_call(st, fr, target)
        name = info.get("name")
        if info["path"] == "std::convert::Into::into" and len(info.get("targs", [])) == 2:
            alt = self.local_from(info["targs"][0], info["targs"][1])
            if alt:
                path = alt
        if info["path"] == "std::convert::TryInto::try_into" and len(info.get("targs", [])) == 2:
            alt = self.local_from(info["targs"][0], info["targs"][1], "try_from", "TryFrom")
            if alt:
                path = alt
        # closure invocation
        if info["path"].startswith("std::ops::Fn") and args and self.closure_of(st, args[0]) is not None:
            clo = self.closure_of(st, args[0])
            cargs = args[1]
            cvals = list(cargs[1]) if cargs[0] == "tup" else ([] if cargs[0] == "unit" else [cargs])
            return self.enter(st, stack, fr, self.F.fns[clo[1]], [args[0]] + cvals, dest, target, None, closure=True)
        # a function item passed where a closure is expected (`helper(x, Self::predicate)`): the call goes to that function
        if info["path"].startswith("std::ops::Fn") and args:
            fv = args[0]
            if fv[0] == "ref":
                fv = self.read_loc(st, fv[1], fv[2])
            if fv[0] == "fn" and fv[1] in self.F.fns and len(args) > 1 and len(stack) < 12:
                # ... and is treated like a direct call to it (inlined or kept as a call by the same policy)
                cargs = args[1]
                args = list(cargs[1]) if cargs[0] == "tup" else ([] if cargs[0] == "unit" else [cargs])
                cf = self.F.fns[fv[1]]
                info = {"path": fv[1], "name": cf.get("name"), "targs": list(fv[2]) if len(fv) > 2 else [], "local": True, "impl_self": cf.get("impl_self", "")}
                path = fv[1]
                name = info["name"]
                self._cur_mut_sig = tuple(i for i in range(cf.get("argc", 0)) if cf["locals"][i + 1].startswith("&mut "))
        m = self.model_call(st, stack, fr, info, path, args, t, site)
        if m is not None:
            return m
        callee = self.F.fns.get(path)
        if callee is not None and self.stub_pred is not None and self.stub_pred(callee):
            # summarised in-crate callee: its event word is a placeholder, every field may change
            st.effects.append(("stub", path, tuple(args), site, len(st.cons)))
            res = ("vec", (("sub", path),)) if "GenericEvent" in callee["locals"][0] else SYM(self.cap(("call", path, tuple(args))))
            for i in self.mut_args(path, info, args):
                if args[i][0] == "ref" and args[i][1] == ("self",) and not args[i][2]:
                    for kk in [kk for kk in st.heap if kk[0] == ("self",)]:
                        del st.heap[kk]
                    st.heap[(("self",), ())] = SYM(self.cap(("after", path, site)))
                else:
                    self.havoc_ref(st, args[i], (path, i), site)
            self.write_place(st, fr, dest, res, site)
            return self.after_call(st, fr, target)
        def const_arg(a):
            if a[0] == "ref":
                a = self.read_loc(st, a[1], a[2])     # `code.is_failure()`: &self pointing at a known variant
            return a[0] == "c" or (a[0] == "agg" and not a[3])
        def known_variant(a):
            if a[0] == "ref":
                a = self.read_loc(st, a[1], a[2])
            return a[0] == "agg" and a[1] in self.F.adts and self.F.adts[a[1]].get("kind") == "enum"
        if callee is not None and constant_fn(callee) and len(stack) < 12 and callee["path"].startswith("mqtt::packet::"):
            self.stats["inlined"].add(path)
            return self.enter(st, stack, fr, callee, args, dest, target, None)
        if callee is not None and len(args) == 1 and known_variant(args[0]) and len(stack) < 10 and pure_match_fn(callee, self.F) \
                and not any(path.endswith(x) for x in getattr(self, "no_fold", ())):
            # a table function (`match self { A(..) => X, B(..) => Y, .. }`, no calls) on a value whose variant is known
            self.stats["inlined"].add(path)
            return self.enter(st, stack, fr, callee, args, dest, target, None)
        if callee is not None and args and all(const_arg(a) for a in args) and len(stack) < 10 \
                and not any(path.endswith(x) for x in getattr(self, "no_fold", ())):
            # constant folding through small in-crate functions (conversion tables, try_from on constants)
            self.stats["inlined"].add(path)
            return self.enter(st, stack, fr, callee, args, dest, target, None)
        if callee is not None and args and args[0][0] == "ref" and len(callee["blocks"]) <= 40 and len(stack) < 10 \
                and callee.get("impl_self", "").startswith("mqtt::packet::v") and frame.accessor_ok(self.F, path):
            rv = self.read_loc(st, args[0][1], args[0][2])
            if rv[0] == "agg" and rv[1] in self.F.adts:
                # accessor on a packet value built on this path (e.g. by an inlined builder): read its fields directly
                self.stats["inlined"].add(path)
                return self.enter(st, stack, fr, callee, args, dest, target, None)
        if callee is not None and self.inline_pred(self, callee, info):
            self.stats["inlined"].add(path)
            self._pending_targs = info.get("targs")
            return self.enter(st, stack, fr, callee, args, dest, target, None)
        self.stats["opaque"].add(path)
        self.opaque_call(st, fr, path, args, dest, site, info)
        return self.after_call(st, fr, target)

    def local_from(self, t_from, t_to, method="from", trait="From"):
        """In-crate `impl From<t_from> for t_to` (the target of the blanket Into::into / TryInto::try_into), if any."""
        key = (t_from, t_to, method)
        c = self._from_cache.get(key)
        if c is None:
            c = ""
            for f in self.F.fns.values():
                if f.get("name") == method and f.get("impl_self") == t_to and f.get("impl_trait_ref", "").endswith("%s<%s>" % (trait, t_from)):
                    c = f["path"]
            self._from_cache[key] = c
        return c or None

    def after_call(self, st, fr, target):
        if target is None:
            self.finish_path(st, None, "diverge")
            return "stop"
        fr.bb = target
        return "ok"

    def assoc_const(self, trait, selfty, name):
        """Evaluated value of `<selfty as trait>::name` from the impl facts (the impl's own value, else the trait default)."""
        for im in self.F.impls_of(trait):
            if im.get("self") == selfty:
                v = (im.get("consts") or {}).get(name)
                if isinstance(v, int):
                    return v
                tr = self.F.traits.get(trait)
                dv = ((tr or {}).get("consts") or {}).get(name)
                return dv if isinstance(dv, int) else None
        return None

    def resolve_trait_method(self, trait, name, selfty):
        key = (trait, name, selfty)
        c = self._trait_res.get(key) if hasattr(self, "_trait_res") else None
        if not hasattr(self, "_trait_res"):
            self._trait_res = {}
        if key in self._trait_res:
            return self._trait_res[key]
        out = None
        if selfty and selfty not in ("Self",) and not re.match(r"^[A-Z]\w*$", selfty):
            for im in self.F.impls_of(trait):
                if im.get("self") == selfty:
                    for m in im.get("methods", []):
                        if m.get("name") == name and m.get("path") in self.F.fns:
                            out = m["path"]
                    if out is None:
                        dp = "%s::%s" % (trait, name)
                        if dp in self.F.fns:
                            out = dp          # provided method of the trait
                    break
        self._trait_res[key] = out
        return out

    def std_fn_item_values(self, st, stack, finfo, argvals, site):
        """Value(s) of std_fn(argvals) according to the call models: [(state, stack, value)], or None when no model applies.
        The model writes into a scratch local of the current frame; forks are carried through."""
        fr = stack[-1]
        scratch = 100000 + len(stack)
        keep_bb = fr.bb
        t2 = {"dest": {"l": scratch, "p": []}, "t": keep_bb, "args": [], "func": {}, "line": site[1] if site else None}
        pth = finfo["path"]
        try:
            r = self.model_call(st, stack, fr, finfo, pth, list(argvals), t2, site)
        except (KeyError, IndexError, TypeError):
            r = None
        if r is None or r in ("stop", "entered"):
            return None if r is None else []
        outs = []
        for (s_, k_) in (r[1] if isinstance(r, tuple) and r[0] == "fork" else [(st, stack)]):
            key = (k_[-1].root(scratch), ())
            if key not in s_.heap:
                return None
            v = s_.heap.pop(key)
            k_[-1].bb = keep_bb
            outs.append((s_, k_, v))
        return outs

    def fn_item_of(self, st, v):
        """Path of the function item a value denotes (directly or behind a reference), else None."""
        for _ in range(2):
            if v[0] == "ref":
                v = self.read_loc(st, v[1], v[2])
        return v[1] if v[0] == "fn" else None

    def closure_of(self, st, v):
        if v[0] == "closure":
            return v
        if v[0] == "ref":
            x = self.read_loc(st, v[1], v[2])
            if x[0] == "closure":
                return x
        return None

    def enter(self, st, stack, fr, callee, args, dest, target, cont, closure=False):
        if len(stack) > 12:
            raise ExploreError("inline depth exceeded at %s" % callee["path"])
        targs = getattr(self, "_pending_targs", None)
        self._pending_targs = None
        for f in stack:
            if f.fn["path"] == callee["path"] and not closure:
                # a generic helper re-entered with other type arguments (`reader.take_with(WillSection::parse)` whose
                # callee itself uses `take_with(MqttString::decode)`) is another instance, not recursion
                if targs and getattr(f, "targs_key", None) is not None and f.targs_key != tuple(targs):
                    continue
                raise ExploreError("recursion through %s" % callee["path"])
        nf = Frame(callee, len(stack))
        nf.targs_key = tuple(targs) if targs else None
        nf.ret_to = (dest, target, cont)
        gens = callee.get("generics")
        if targs and gens and len(targs) == len(gens):
            cm = {}
            for gname, ta in zip(gens, targs):
                m = re.match(r"^(\d+)(_?[ui](8|16|32|64|128|size))?$", ta)
                if m:
                    cm[gname] = int(m.group(1))
                elif fr is not None and fr.consts and ta in fr.consts:
                    cm[gname] = fr.consts[ta]
            nf.consts = cm or None
            tm = {}
            for gname, ta in zip(gens, targs):
                if gname.startswith("'") or gname in cm:
                    continue
                if fr is not None and fr.tsub and ta in fr.tsub:
                    ta = fr.tsub[ta]
                if ta != gname and not ta.startswith("'"):
                    tm[gname] = ta          # `T` = u16 selects the std models; `Self` = a packet type selects the trait impl
            nf.tsub = tm or None
        elif closure and fr is not None:
            nf.consts = fr.consts
            nf.tsub = fr.tsub
        for i, a in enumerate(args):
            st.heap[(nf.root(i + 1), ())] = a
        if callee.get("kind") == "Closure" and callee["argc"] == 2 and len(args) != 2:
            # closures take (env, args...) un-tupled in MIR already; nothing to do
            pass
        st.effects.append(("enter", callee["path"], tuple(args), (fr.fn["path"], None), len(st.cons)))
        stack.append(nf)
        return "entered"

    def deref(self, st, v):
        if v[0] == "ref":
            return self.read_loc(st, v[1], v[2])
        if v[0] == "sym":
            return SYM(self.cap(("deref", v[1])))
        return v

    def havoc_ref(self, st, v, tag, site, res=None, argterms=()):
        if v[0] == "ref":
            root, path = v[1], v[2]
            old = self.read_loc(st, root, path)
            oldc = self.intern(old) if term_depth(old) > 4 else old
            ac = tuple(self.intern(a) if isinstance(a, tuple) and term_depth(a) > 4 else a for a in argterms)
            new = SYM(("mut", tag, site, oldc, res, ac))
            if root[0] != "L":
                for p_, v_ in self.flat_writes(st, root, path, new):
                    st.effects.append(("write", root, p_, v_, site))
            self.write_loc(st, root, path, new)

    def opaque_call(self, st, fr, path, args, dest, site, info):
        """Non-inlined call: record effect, havoc &mut arguments, bind a result term."""
        fn = fr.fn
        def dr(a):
            if a[0] == "ref":
                return self.deref(st, a)
            if a[0] == "agg" and a[1] in ("std::option::Option", "std::result::Result") and len(a[3]) == 1 and a[3][0][0] == "ref":
                return ("agg", a[1], a[2], (self.deref(st, a[3][0]),))      # Some(&x): what the callee sees is x
            return a
        argterms = tuple(dr(a) for a in args)
        if info is not None and info.get("targs") and (not argterms or (info.get("name") in ("try_into", "try_from", "as_mut", "as_ref") and path not in self.F.fns)):
            argterms = tuple(argterms) + (("targs", tuple(info["targs"])),)
        # frame rule: accessor(mutator(x, ..)) == accessor(x) when the accessor reads no field the mutator writes
        if argterms and path in self.F.fns:
            a0 = argterms[0]
            for _ in range(6):
                t0 = a0[1] if a0[0] == "sym" else None
                if t0 and t0[0] == "field" and t0[2] == 0 and isinstance(t0[1], tuple) and t0[1] and t0[1][0] == "call":
                    t0 = t0[1]      # unwrap()/? of a Result-returning mutator
                if not (t0 and t0[0] == "call" and t0[2] and frame.disjoint(self.F, path, t0[1])):
                    break
                a0 = t0[2][0]
            if a0 is not argterms[0]:
                argterms = (a0,) + tuple(argterms[1:])
        res = SYM(self.cap(("call", path, argterms)))
        if self.opaque_hook:
            r = self.opaque_hook(self, st, path, args, argterms, info)
            if r is not None:
                res = r
        # container axiom: a lookup of key k right after `insert(k, ..)` on the same map / set finds it
        nm_ = path.split("::")[-1]
        if nm_ in ("get", "get_mut", "get_full", "get_index_of", "contains_key", "contains") and len(argterms) >= 2 and res[0] == "sym":
            rc = argterms[0]
            if rc[0] == "sym" and rc[1][0] == "mut" and rc[1][1][0].split("::")[-1] == "insert" and len(rc[1]) > 5 and rc[1][5] \
                    and rc[1][5][0] == argterms[1]:
                if nm_.startswith("contains"):
                    self.constrain(st, res[1], "eq", 1)
                else:
                    self.constrain(st, ("discr", res[1], "std::option::Option"), "eq", self.variant_discr("std::option::Option", "Some"))
        if SNAP_RE.search(path):
            st.effects.append(("call", path, tuple(args), argterms, res, site, dict(st.cons)))
        else:
            st.effects.append(("call", path, tuple(args), argterms, res, site))
        # &mut arguments are havocked (after computing the result term from the pre-state)
        mut_idx = self.mut_args(path, info, args)
        for i in mut_idx:
            self.havoc_ref(st, args[i], (path, i), site, res[1] if res[0] == "sym" else None,
                           tuple(a for j, a in enumerate(argterms) if j != i))
        self.write_place(st, fr, dest, res, site)

    def mut_args(self, path, info, args):
        """Indices of arguments passed as &mut, from the FnDef signature of the call."""
        return [i for i in getattr(self, "_cur_mut_sig", ()) if i < len(args)]

    # ------------------------------------------------ concrete sequences
    # ('cseq', root, n)                      a slice / Vec whose n elements live at heap[(root, (('ci', i),))]
    # ('citer', root, n, idx, adaptors, by_ref)  an iterator over it; adaptors = lazy map / filter / enumerate / copied / flat_map
    def cseq_new(self, st, tag, items):
        self._cs_n = getattr(self, "_cs_n", 0) + 1
        root = ("CS", tag, self._cs_n)
        for i, v in enumerate(items):
            st.heap[(root, (("ci", i),))] = v
        return ("cseq", root, len(items))

    def cseq_at(self, st, a):
        """The cseq / citer value an argument denotes (directly, or through one or two references)."""
        for _ in range(3):
            if a[0] in ("cseq", "citer"):
                return a
            if a[0] == "ref":
                a = self.read_loc(st, a[1], a[2])
                continue
            return None
        return None

    def cseq_finish(self, st, stack, dest, target, site, value):
        fr = stack[-1]
        self.write_place(st, fr, dest, value, site)
        return self.after_call(st, fr, target)

    def cseq_branch(self, st, stack, bv, on_true, on_false):
        """Continue with on_true / on_false according to a (possibly symbolic) boolean; forks when undecided."""
        r = self.eval_bool(st, bv)
        if isinstance(r, bool):
            return (on_true if r else on_false)(st, stack)
        s2 = st.clone()
        k2 = self.clone_stack(stack)
        ok1 = self.assume_bool(st, r, True)
        ok2 = self.assume_bool(s2, r, False)
        if ok2:
            res2 = on_false(s2, k2)
            if res2 != "stop":
                self.work.append((s2, k2))
        if ok1:
            return on_true(st, stack)
        self.finish_path(st, None, "diverge")
        return "stop"

    def cseq_call_closure(self, st, stack, clo_val, argvals, then):
        """Run a local closure on argvals, then `then(st, stack, result)`."""
        clo = self.closure_of(st, clo_val)
        if clo is None or clo[1] not in self.F.fns:
            fv = clo_val
            if fv[0] == "ref":
                fv = self.read_loc(st, fv[1], fv[2])
            if fv[0] == "fn":
                # a function item used as the closure (`.map(IoSlice::new)`, `.map(Self::encode)`)
                if fv[1].startswith("std::io::IoSlice::") and fv[1].endswith("::new") and len(argvals) == 1:
                    a0 = argvals[0]
                    return then(st, stack, ("io", ("loc", a0[1], a0[2]) if a0[0] == "ref" else a0))
                if fv[1] in self.F.fns and len(stack) < 12:
                    self.enter(st, stack, stack[-1], self.F.fns[fv[1]], list(argvals), None, None, lambda s3, k3, rv: then(s3, k3, rv))
                    return "entered"
                return then(st, stack, SYM(self.cap(("call", fv[1], tuple(argvals)))))
            return then(st, stack, SYM(self.cap(("call", "<fn>", tuple(argvals)))))
        callee = self.F.fns[clo[1]]

        def cont(st3, stack3, retv):
            return then(st3, stack3, retv)
        self.enter(st, stack, stack[-1], callee, [clo_val] + list(argvals), None, None, cont, closure=True)
        return "entered"

    def cseq_drive(self, st, stack, it, on_item, on_end):
        """Feed the remaining elements of a citer, after its lazy adaptors, to on_item(st, stack, value, resume);
        on_end(st, stack) when exhausted.  Continuation-passing: every callback receives the state it runs in."""
        _, root, n, idx0, adaptors, by_ref = it

        def step(st1, stack1, idx, count):
            if idx >= n:
                return on_end(st1, stack1)
            v = ("ref", root, (("ci", idx),)) if by_ref else self.read_loc(st1, root, (("ci", idx),))
            return apply(st1, stack1, 0, v, idx, count)

        def unwrap_opt(st1, stack1, ai, v, idx, count):
            """flatten / filter_map over Option items: Some(x) yields x, None is skipped (decided, or forked on the variant)."""
            OPT = "std::option::Option"
            vv = self.deref(st1, v) if v[0] == "ref" else v
            if vv[0] == "agg" and vv[1] == OPT:
                if vv[2] == "None":
                    return step(st1, stack1, idx + 1, count)
                return apply(st1, stack1, ai + 1, vv[3][0], idx, count)
            if vv[0] == "sym":
                dt = ("discr", vv[1], OPT)
                s2 = st1.clone()
                k2 = self.clone_stack(stack1)
                if self.constrain(s2, dt, "eq", self.variant_discr(OPT, "None")):
                    if step(s2, k2, idx + 1, count) != "stop":
                        self.work.append((s2, k2))
                if self.constrain(st1, dt, "eq", self.variant_discr(OPT, "Some")):
                    return apply(st1, stack1, ai + 1, SYM(self.cap(("field", vv[1], 0))), idx, count)
                self.finish_path(st1, None, "diverge")
                return "stop"
            return on_end(st1, stack1)

        def apply(st1, stack1, ai, v, idx, count):
            if ai == len(adaptors):
                return on_item(st1, stack1, v, lambda s_, k_: step(s_, k_, idx + 1, count + 1))
            ad = adaptors[ai]
            if ad[0] in ("copied", "cloned"):
                return apply(st1, stack1, ai + 1, self.deref(st1, v), idx, count)
            if ad[0] == "enumerate":
                return apply(st1, stack1, ai + 1, ("tup", (C(count, "usize"), v)), idx, count)
            if ad[0] in ("map", "flat_map"):
                return self.cseq_call_closure(st1, stack1, ad[1], [v], lambda s_, k_, rv: apply(s_, k_, ai + 1, rv, idx, count))
            if ad[0] == "filter_map":
                return self.cseq_call_closure(st1, stack1, ad[1], [v], lambda s_, k_, rv: unwrap_opt(s_, k_, ai, rv, idx, count))
            if ad[0] == "flatten":
                return unwrap_opt(st1, stack1, ai, v, idx, count)
            if ad[0] == "filter":
                self._cs_n = getattr(self, "_cs_n", 0) + 1
                tmp = ("CS", "tmp", self._cs_n)
                st1.heap[(tmp, ())] = v
                return self.cseq_call_closure(
                    st1, stack1, ad[1], [("ref", tmp, ())],
                    lambda s_, k_, rv: self.cseq_branch(s_, k_, rv, lambda s2, k2: apply(s2, k2, ai + 1, v, idx, count),
                                                        lambda s2, k2: step(s2, k2, idx + 1, count)))
            return on_end(st1, stack1)
        return step(st, stack, idx0, 0)

    def cseq_model(self, st, stack, fr, info, path, p, args, dest, target, site):
        if not args:
            return None
        nm = path.split("::")[-1]
        a0 = self.cseq_at(st, args[0])
        if a0 is None:
            # an array literal built on the path is a concrete sequence too: `[a, b, c].iter()...`, `[..].into_iter().flatten()...`
            raw = args[0]
            for _ in range(2):
                if raw[0] == "ref":
                    raw = self.read_loc(st, raw[1], raw[2])
            if raw[0] == "arr" and len(raw[1]) <= 32 and nm in ("iter", "contains") and "slice" in path:
                a0 = self.cseq_new(st, "arr", list(raw[1]))
            elif raw[0] == "arriter" and nm in ("map", "filter", "flat_map", "filter_map", "flatten", "copied", "cloned", "enumerate", "sum", "count",
                                               "all", "any", "find", "position", "for_each", "try_for_each", "collect", "fold", "try_fold", "chain"):
                cs = self.cseq_new(st, "arr", list(raw[1]))
                a0 = ("citer", cs[1], cs[2], raw[2], (), False)
        if a0 is None:
            # Extend::extend(vec, citer) / FromIterator: the concrete thing is the second argument
            if nm == "extend" and len(args) == 2 and self.cseq_at(st, args[1]) is not None and args[0][0] == "ref":
                return self.cseq_extend(st, stack, args, dest, target, site)
            # a lazy adaptor chain with a local closure over an iterator of unknown length (`set.drain().filter_map(|id| ..)`):
            # remembered as such; a consumer below runs it on 0 .. closure_k abstract elements
            a00 = args[0]
            if a00[0] == "ref":
                a00 = self.read_loc(st, a00[1], a00[2])
            if nm in ("map", "filter", "filter_map") and len(args) == 2 and "Iterator" in path and self.closure_of(st, args[1]) is not None \
                    and self.closure_of(st, args[1])[1] in self.F.fns and a00[0] in ("sym", "liter"):
                src, ads = (a00[1], a00[2]) if a00[0] == "liter" else (a00, ())
                return self.cseq_finish(st, stack, dest, target, site, ("liter", src, ads + ((nm, args[1]),)))
            if nm == "extend" and len(args) == 2 and args[0][0] == "ref" and args[1][0] == "liter" and "GenericEvent" in repr(info.get("targs")):
                _, src, ads = args[1]
                first_clo = self.closure_of(st, ads[0][1])
                alts = []
                for n_ in range(0, self.closure_k + 1):
                    s2 = st.clone()
                    k2 = self.clone_stack(stack)
                    srci = self.intern(src) if term_depth(src) > 3 else src
                    items = [SYM(("elem", first_clo[1], 2, i_ + 1, srci)) for i_ in range(n_)]
                    cs = self.cseq_new(s2, "abs", items)
                    r_ = self.cseq_extend(s2, k2, [args[0], ("citer", cs[1], cs[2], 0, ads, False)], dest, target, site)
                    if r_ != "stop":
                        alts.append((s2, k2))
                if not alts:
                    self.finish_path(st, None, "diverge")
                    return "stop"
                return ("fork", alts)
            return None
        OPT = "std::option::Option"
        fin = lambda s_, k_, v: self.cseq_finish(s_, k_, dest, target, site, v)
        if a0[0] == "cseq":
            _, root, n = a0
            if (nm in ("iter", "iter_mut") and "slice" in path) or (nm == "into_iter" and (path.startswith("<&") or " for &" in path)):
                return fin(st, stack, ("citer", root, n, 0, (), True))
            if nm == "into_iter":
                return fin(st, stack, ("citer", root, n, 0, (), False))
            if nm == "len":
                return fin(st, stack, C(n, "usize"))
            if nm == "is_empty":
                return fin(st, stack, C(1 if n == 0 else 0, "bool"))
            if nm in ("deref", "as_slice", "as_ref", "borrow", "as_mut_slice", "deref_mut") and args[0][0] == "ref":
                return fin(st, stack, args[0])
            if nm in ("first", "last"):
                if n == 0:
                    return fin(st, stack, AGG(OPT, "None"))
                return fin(st, stack, AGG(OPT, "Some", (("ref", root, (("ci", 0 if nm == "first" else n - 1),)),)))
            if nm == "get" and len(args) == 2 and args[1][0] == "c":
                i = args[1][1]
                return fin(st, stack, AGG(OPT, "Some", (("ref", root, (("ci", i),)),)) if 0 <= i < n else AGG(OPT, "None"))
            if nm in ("index", "index_mut") and len(args) == 2 and args[1][0] == "c" and 0 <= args[1][1] < n:
                return fin(st, stack, ("ref", root, (("ci", args[1][1]),)))
            if nm in ("clone", "to_vec", "to_owned"):
                return fin(st, stack, a0)
            if nm in ("sort", "sort_unstable") and len(args) == 1:
                # a list of known integers: sorted in place
                vals = [self.read_loc(st, root, (("ci", i),)) for i in range(n)]
                if all(v_[0] == "c" and isinstance(v_[1], int) for v_ in vals):
                    for i, v_ in enumerate(sorted(vals, key=lambda x_: x_[1])):
                        st.heap[(root, (("ci", i),))] = v_
                    return fin(st, stack, UNIT())
                return None
            if nm == "windows" and len(args) == 2 and args[1][0] == "c" and isinstance(args[1][1], int) and args[1][1] >= 1:
                w_ = args[1][1]
                vals = [self.read_loc(st, root, (("ci", i),)) for i in range(n)]
                wins = [("arr", tuple(vals[i:i + w_])) for i in range(0, max(n - w_ + 1, 0))]
                cs = self.cseq_new(st, "windows", wins)
                return fin(st, stack, ("citer", cs[1], cs[2], 0, (), True))
            if nm == "contains" and len(args) == 2:
                # membership in a list of concrete values: decided element by element (derived equality)
                x = self.deref(st, args[1]) if args[1][0] == "ref" else args[1]
                res = False
                for i in range(n):
                    r = struct_eq(self.read_loc(st, root, (("ci", i),)), x)
                    if r is True:
                        res = True
                        break
                    if r is None:
                        res = None
                if res is None:
                    return None
                return fin(st, stack, C(1 if res else 0, "bool"))
            return None
        # ---- citer
        _, root, n, idx, adaptors, by_ref = a0
        if nm == "into_iter":
            return fin(st, stack, a0)
        if nm in ("map", "filter", "flat_map", "filter_map") and len(args) == 2:
            return fin(st, stack, ("citer", root, n, idx, adaptors + ((nm, args[1]),), by_ref))
        if nm in ("copied", "cloned", "enumerate", "flatten"):
            return fin(st, stack, ("citer", root, n, idx, adaptors + ((nm,),), by_ref))
        if nm == "by_ref":
            return fin(st, stack, args[0])
        if nm == "take" and len(args) == 2 and args[1][0] == "c" and not adaptors:
            return fin(st, stack, ("citer", root, min(n, idx + args[1][1]), idx, adaptors, by_ref))
        if nm == "skip" and len(args) == 2 and args[1][0] == "c" and not adaptors:
            return fin(st, stack, ("citer", root, n, min(n, idx + args[1][1]), adaptors, by_ref))
        if nm == "next" and args[0][0] == "ref" and not any(ad[0] in ("filter", "map", "flat_map", "filter_map", "flatten") for ad in adaptors):
            if idx >= n:
                return fin(st, stack, AGG(OPT, "None"))
            self.write_loc(st, args[0][1], args[0][2], ("citer", root, n, idx + 1, adaptors, by_ref))
            for kk in [kk for kk in st.visits if kk[0] == fr.depth]:
                del st.visits[kk]          # progress through a finite list: not a loop-bound round
            v = ("ref", root, (("ci", idx),)) if by_ref else self.read_loc(st, root, (("ci", idx),))
            cnt = idx
            for ad in adaptors:
                if ad[0] in ("copied", "cloned"):
                    v = self.deref(st, v)
                elif ad[0] == "enumerate":
                    v = ("tup", (C(cnt, "usize"), v))
            return fin(st, stack, AGG(OPT, "Some", (v,)))
        if nm == "count":
            return self.cseq_count(st, stack, a0, fin)
        if nm in ("all", "any") and len(args) == 2:
            clo = args[1]
            want_stop = (nm == "any")        # any: stop with true on the first true; all: stop with false on the first false

            def on_item(s_, k_, v, resume):
                return self.cseq_call_closure(
                    s_, k_, clo, [v],
                    lambda s2, k2, rv: self.cseq_branch(s2, k2, rv,
                                                        (lambda s3, k3: fin(s3, k3, C(1, "bool"))) if want_stop else resume,
                                                        resume if want_stop else (lambda s3, k3: fin(s3, k3, C(0, "bool")))))
            return self.cseq_drive(st, stack, a0, on_item, lambda s_, k_: fin(s_, k_, C(0 if want_stop else 1, "bool")))
        if nm in ("find", "position") and len(args) == 2:
            clo = args[1]
            pos = {"i": idx}

            def on_item_f(s_, k_, v, resume, clo=clo):
                self._cs_n = getattr(self, "_cs_n", 0) + 1
                tmp = ("CS", "tmp", self._cs_n)
                s_.heap[(tmp, ())] = v
                argv = [("ref", tmp, ())] if nm == "find" else [v]
                return self.cseq_call_closure(
                    s_, k_, clo, argv,
                    lambda s2, k2, rv: self.cseq_branch(s2, k2, rv, lambda s3, k3: fin(s3, k3, AGG(OPT, "Some", (v,))), resume))
            if nm == "find":
                return self.cseq_drive(st, stack, a0, on_item_f, lambda s_, k_: fin(s_, k_, AGG(OPT, "None")))
            # position: index (among the items the closure sees) of the first one it accepts
            boxp = []
            keyp = (("CS", "pos", id(boxp)), ())

            def on_item_p(s_, k_, v, resume, clo=clo):
                i_ = s_.heap.get(keyp, C(0, "usize"))[1]
                s_.heap[keyp] = C(i_ + 1, "usize")

                def found(s3, k3):
                    s3.heap.pop(keyp, None)
                    return fin(s3, k3, AGG(OPT, "Some", (C(i_, "usize"),)))
                return self.cseq_call_closure(s_, k_, clo, [v], lambda s2, k2, rv: self.cseq_branch(s2, k2, rv, found, resume))

            def end_p(s_, k_):
                s_.heap.pop(keyp, None)
                return fin(s_, k_, AGG(OPT, "None"))
            return self.cseq_drive(st, stack, a0, on_item_p, end_p)
        if nm == "for_each" and len(args) == 2:
            clo = args[1]
            return self.cseq_drive(st, stack, a0,
                                   lambda s_, k_, v, resume: self.cseq_call_closure(s_, k_, clo, [v], lambda s2, k2, rv: resume(s2, k2)),
                                   lambda s_, k_: fin(s_, k_, UNIT()))
        if nm == "try_for_each" and len(args) == 2:
            clo = args[1]
            RES = "std::result::Result"

            def on_item_t(s_, k_, v, resume):
                def after(s2, k2, rv):
                    if rv[0] == "agg" and rv[1] == RES:
                        return resume(s2, k2) if rv[2] == "Ok" else fin(s2, k2, rv)
                    if rv[0] == "agg" and rv[1] == OPT:
                        return resume(s2, k2) if rv[2] == "Some" else fin(s2, k2, rv)
                    if rv[0] == "sym":
                        # undecided result of the step: either it fails (returned as it is) or the iteration goes on
                        s3 = s2.clone()
                        k3 = self.clone_stack(k2)
                        dt = ("discr", rv[1], RES)
                        if self.constrain(s3, dt, "eq", self.variant_discr(RES, "Err")):
                            r3 = fin(s3, k3, AGG(RES, "Err", (SYM(self.cap(("field", rv[1], 0))),)))
                            if r3 != "stop":
                                self.work.append((s3, k3))
                        if self.constrain(s2, dt, "eq", self.variant_discr(RES, "Ok")):
                            return resume(s2, k2)
                        self.finish_path(s2, None, "diverge")
                        return "stop"
                    return resume(s2, k2)
                return self.cseq_call_closure(s_, k_, clo, [v], after)
            return self.cseq_drive(st, stack, a0, on_item_t, lambda s_, k_: fin(s_, k_, AGG(RES, "Ok", (UNIT(),))))
        if nm == "chain" and len(args) == 2:
            # a.chain(b) with a an iteration over known items: the items of a, then those of b - a vector of tracked words
            # contributes its words, a nested serialisation (`x.to_buffers()`) stays one nested item
            tail = self.deref(st, args[1]) if args[1][0] == "ref" else args[1]
            tl = None
            if tail[0] == "vec":
                tl = list(tail[1])
            elif tail[0] == "sym":
                tt = self.interned_rev.get(tail[1][1], tail[1]) if (len(tail[1]) == 2 and tail[1][0] == "#") else tail[1]
                if isinstance(tt, tuple) and tt and tt[0] == "call" and tt[1].split("::")[-1] in ("to_buffers", "to_continuous_buffer"):
                    tl = [("nested", tail)]
            if tl is not None:
                boxc = []
                keyc = (("CS", "chain", id(boxc)), ())

                def on_item_ch(s_, k_, v, resume):
                    s_.heap[keyc] = ("tup", s_.heap.get(keyc, ("tup", ()))[1] + (v,))
                    return resume(s_, k_)

                def on_end_ch(s_, k_):
                    items = list(s_.heap.pop(keyc, ("tup", ()))[1]) + tl
                    cs = self.cseq_new(s_, "chain", items)
                    return fin(s_, k_, ("citer", cs[1], cs[2], 0, (), False))
                return self.cseq_drive(st, stack, a0, on_item_ch, on_end_ch)
        if nm in ("fold", "try_fold") and len(args) == 3:
            # the accumulator travels in the state (forks carry their own copy): init, then the closure's previous result;
            # try_fold stops at the first Err / None the closure returns
            clo = args[2]
            boxf = []
            keyf = (("CS", "fold", id(boxf)), ())
            st.heap[keyf] = args[1]
            RES = "std::result::Result"
            is_try = (nm == "try_fold")

            def on_item_fd(s_, k_, v, resume):
                def after(s2, k2, rv):
                    if not is_try:
                        s2.heap[keyf] = rv
                        return resume(s2, k2)
                    if rv[0] == "agg" and rv[1] in (RES, OPT):
                        if rv[2] in ("Ok", "Some"):
                            s2.heap[keyf] = rv[3][0]
                            return resume(s2, k2)
                        s2.heap.pop(keyf, None)
                        return fin(s2, k2, rv)
                    if rv[0] == "sym":
                        s3 = s2.clone()
                        k3 = self.clone_stack(k2)
                        dt = ("discr", rv[1], RES)
                        if self.constrain(s3, dt, "eq", self.variant_discr(RES, "Err")):
                            s3.heap.pop(keyf, None)
                            r3 = fin(s3, k3, AGG(RES, "Err", (SYM(self.cap(("field", rv[1], 0))),)))
                            if r3 != "stop":
                                self.work.append((s3, k3))
                        if self.constrain(s2, dt, "eq", self.variant_discr(RES, "Ok")):
                            s2.heap[keyf] = SYM(self.cap(("field", rv[1], 0)))
                            return resume(s2, k2)
                        self.finish_path(s2, None, "diverge")
                        return "stop"
                    s2.heap[keyf] = rv
                    return resume(s2, k2)
                return self.cseq_call_closure(s_, k_, clo, [s_.heap.get(keyf, args[1]), v], after)

            def on_end_fd(s_, k_):
                acc = s_.heap.pop(keyf, args[1])
                if is_try and any(isinstance(t_, str) and t_.startswith("std::option::Option<") for t_ in (info.get("targs") or [])[-1:]):
                    return fin(s_, k_, AGG(OPT, "Some", (acc,)))       # R = Option<B>
                return fin(s_, k_, AGG(RES, "Ok", (acc,)) if is_try else acc)
            return self.cseq_drive(st, stack, a0, on_item_fd, on_end_fd)
        if nm == "sum":
            box = []

            def on_item_s(s_, k_, v, resume):
                # accumulate in the state (forks carry their own copy)
                cur = s_.heap.get((("CS", "acc", id(box)), ()), C(0, "usize"))
                s_.heap[(("CS", "acc", id(box)), ())] = self.binop(s_, "Add", cur, self.deref(s_, v) if v[0] == "ref" else v)
                return resume(s_, k_)
            return self.cseq_drive(st, stack, a0, on_item_s,
                                   lambda s_, k_: fin(s_, k_, s_.heap.pop((("CS", "acc", id(box)), ()), C(0, "usize"))))
        if nm == "collect":
            box = []

            def on_item_c(s_, k_, v, resume):
                key = (("CS", "col", id(box)), ())
                s_.heap[key] = s_.heap.get(key, ("tup", ()))
                s_.heap[key] = ("tup", s_.heap[key][1] + (v,))
                return resume(s_, k_)

            to_words = any(t.startswith("std::vec::Vec<") and tracked_elem(t[len("std::vec::Vec<"):-1]) for t in info.get("targs", []))

            res_vec = any(isinstance(t, str) and t.startswith("std::result::Result<std::vec::Vec<") for t in (info.get("targs") or []))

            def on_end_c(s_, k_):
                items = s_.heap.pop((("CS", "col", id(box)), ()), ("tup", ()))[1]
                if res_vec:
                    # collect::<Result<Vec<_>, E>>(): the first Err, else Ok(the payloads) - decided when every item is
                    RES_ = "std::result::Result"
                    pay = []
                    for it_ in items:
                        iv_ = self.deref(s_, it_) if it_[0] == "ref" else it_
                        if not (iv_[0] == "agg" and iv_[1] == RES_):
                            return fin(s_, k_, SYM(self.cap(("call", "std::iter::Iterator::collect", (self.cseq_new(s_, "collect", list(items)),)))))
                        if iv_[2] == "Err":
                            return fin(s_, k_, iv_)
                        pay.append(iv_[3][0])
                    return fin(s_, k_, AGG(RES_, "Ok", (self.cseq_new(s_, "collect", pay),)))
                if to_words:
                    return fin(s_, k_, ("vec", tuple(items)))        # bytes / IoSlices / events: the word representation
                return fin(s_, k_, self.cseq_new(s_, "collect", list(items)))
            return self.cseq_drive(st, stack, a0, on_item_c, on_end_c)
        return None

    def cseq_count(self, st, stack, it, fin):
        box = []
        key = (("CS", "cnt", id(box)), ())

        def on_item(s_, k_, v, resume):
            s_.heap[key] = C(s_.heap.get(key, C(0, "usize"))[1] + 1, "usize")
            return resume(s_, k_)
        return self.cseq_drive(st, stack, it, on_item, lambda s_, k_: fin(s_, k_, s_.heap.pop(key, C(0, "usize"))))

    def cseq_extend(self, st, stack, args, dest, target, site):
        """vec.extend(concrete iterator): every produced value is appended; a produced vector / nested serialisation
        (flat_map) contributes its items."""
        tgt = args[0]
        it = self.cseq_at(st, args[1])
        if it[0] == "cseq":
            it = ("citer", it[1], it[2], 0, (), False)
        flat = any(ad[0] == "flat_map" for ad in it[4])

        def on_item(s_, k_, v, resume):
            cur = self.read_loc(s_, tgt[1], tgt[2])
            base = cur[1] if cur[0] == "vec" else (("evs?", cur),)
            if flat:
                add = v[1] if v[0] == "vec" else (("nested", v),)
            else:
                add = (self.deref(s_, v) if v[0] == "ref" else v,)
            self.write_loc(s_, tgt[1], tgt[2], ("vec", base + tuple(add)))
            for x in add:
                s_.effects.append(("push", tgt[1], x, site, tgt[2]))
            return resume(s_, k_)
        return self.cseq_drive(st, stack, it, on_item, lambda s_, k_: self.cseq_finish(s_, k_, dest, target, site, UNIT()))

    # ------------------------------------------------------------- models
    def model_call(self, st, stack, fr, info, path, args, t, site):
        """Models for std / container / conversion calls. Return None when no model applies."""
        name = info.get("name")
        p = info["path"]
        dest, target = t["dest"], t["t"]

        def ret(v):
            self.write_place(st, fr, dest, v, site)
            return self.after_call(st, fr, target)

        # ---- concrete sequences (lists whose elements are known one by one): exact iteration, whatever the idiom
        r_cs = self.cseq_model(st, stack, fr, info, path, p, args, dest, target, site)
        if r_cs is not None:
            return r_cs
        # ---- bool::then(|| ..): Some(closure()) when the flag is set, None otherwise (the closure runs only then)
        if p == "std::bool::<impl bool>::then" and len(args) == 2 and \
                ((self.closure_of(st, args[1]) is not None and self.closure_of(st, args[1])[1] in self.F.fns) or self.fn_item_of(st, args[1]) is not None):
            OPT_ = "std::option::Option"
            return self.cseq_branch(
                st, stack, args[0],
                lambda s_, k_: self.cseq_call_closure(s_, k_, args[1], [], lambda s3, k3, rv: self.cseq_finish(s3, k3, dest, target, site, AGG(OPT_, "Some", (rv,)))),
                lambda s_, k_: self.cseq_finish(s_, k_, dest, target, site, AGG(OPT_, "None")))
        # ---- Option<Result<T, E>>::transpose: None -> Ok(None), Some(Ok(x)) -> Ok(Some(x)), Some(Err(e)) -> Err(e)
        if p == "std::option::Option::<std::result::Result<T, E>>::transpose" and len(args) == 1 and args[0][0] in ("agg", "sym"):
            OPT_, RES_ = "std::option::Option", "std::result::Result"
            outs = []          # (constraints [(term, adt, variant)], value)
            v = args[0]
            if v[0] == "agg":
                cases = [([], v)]
            else:
                cases = [([(v[1], OPT_, "None")], AGG(OPT_, "None")), ([(v[1], OPT_, "Some")], AGG(OPT_, "Some", (SYM(self.cap(("field", v[1], 0))),)))]
            for cons_, ov in cases:
                if ov[2] == "None":
                    outs.append((cons_, AGG(RES_, "Ok", (AGG(OPT_, "None"),))))
                    continue
                r_ = ov[3][0]
                if r_[0] == "agg":
                    outs.append((cons_, AGG(RES_, "Ok", (AGG(OPT_, "Some", (r_[3][0],)),)) if r_[2] == "Ok" else AGG(RES_, "Err", (r_[3][0],))))
                elif r_[0] == "sym":
                    outs.append((cons_ + [(r_[1], RES_, "Ok")], AGG(RES_, "Ok", (AGG(OPT_, "Some", (SYM(self.cap(("field", r_[1], 0))),)),))))
                    outs.append((cons_ + [(r_[1], RES_, "Err")], AGG(RES_, "Err", (SYM(self.cap(("field", r_[1], 0))),))))
                else:
                    outs = None
                    break
            if outs:
                alts = []
                for cons_, val in outs:
                    s2 = st.clone()
                    if not all(self.constrain(s2, ("discr", tm, adt_), "eq", self.variant_discr(adt_, var_)) for tm, adt_, var_ in cons_):
                        continue
                    k2 = self.clone_stack(stack)
                    self.write_place(s2, k2[-1], dest, val, site)
                    if target is None:
                        continue
                    k2[-1].bb = target
                    alts.append((s2, k2))
                if not alts:
                    self.finish_path(st, None, "diverge")
                    return "stop"
                return ("fork", alts)
        # ---- arithmetic on primitive integers through the operator traits (`a + &b`, `x += &y`): the same operation as the
        #      MIR binary operator, with the same overflow obligation (core's impls inherit the caller's overflow checks)
        mprim = PRIM_OP_RE.match(path) if isinstance(path, str) else None
        if mprim and len(args) == 2:
            ty, opn = mprim.group(1), mprim.group(2)
            assign = opn.endswith("_assign")
            op = {"add": "Add", "sub": "Sub", "mul": "Mul"}[opn.replace("_assign", "")]
            a_, b_ = args
            tgt = a_ if assign else None
            for _ in range(2):
                if a_[0] == "ref":
                    a_ = self.read_loc(st, a_[1], a_[2])
                if b_[0] == "ref":
                    b_ = self.read_loc(st, b_[1], b_[2])
            r_ = self.binop(st, op, a_, b_)
            if not (a_[0] == "c" and b_[0] == "c"):
                st.effects.append(("assert", "overflow", site, "open", (op, None, (a_, b_), (ty, ty)), dict(st.cons)))
            if assign:
                if tgt[0] != "ref":
                    return None
                self.write_loc(st, tgt[1], tgt[2], r_)
                return ret(UNIT())
            return ret(r_)
        # ---- Vec<GenericEvent> words
        if p == "std::vec::Vec::<T>::new" or p == "std::vec::Vec::<T>::with_capacity":
            if tracked_elem(info["targs"][0]):
                return ret(("vec", ()))
            if cseq_elem(info["targs"][0]):
                return ret(self.cseq_new(st, "vec", []))      # a list of packet parts built on the path: kept element by element
            return None
        if p == "std::boxed::Box::<T>::new_uninit" and tracked_elem(info["targs"][0]):
            return ret(("boxuninit",))
        if p == "std::boxed::box_assume_init_into_vec_unsafe":
            v = args[0]
            arr = None
            if v[0] == "agg" or v[0] == "sym":
                arr = None
            # the array was written through the box: stored under the moved-from local; look at value
            if v[0] == "boxarr":
                # vec![a, b]: the elements are emitted here, in order (same effect as Vec::new() + push + push)
                for it in v[1]:
                    st.effects.append(("push", ("vec!",), it, site, ()))
                return ret(("vec", v[1]))
            return ret(("vec", (("evs?",),)))
        if p == "std::vec::Vec::<T, A>::push" and cseq_elem(info["targs"][0]) and args[0][0] == "ref":
            cur = self.read_loc(st, args[0][1], args[0][2])
            if cur[0] == "cseq":
                items = [self.read_loc(st, cur[1], (("ci", i),)) for i in range(cur[2])] + [args[1]]
                self.write_loc(st, args[0][1], args[0][2], self.cseq_new(st, "vec", items))
                for kk in [kk for kk in st.visits if kk[0] == fr.depth]:
                    pass
                return ret(UNIT())
        if p == "std::vec::Vec::<T, A>::push" and tracked_elem(info["targs"][0]):
            tgt = args[0]
            if tgt[0] == "ref":
                cur = self.read_loc(st, tgt[1], tgt[2])
                if cur[0] == "vec":
                    self.write_loc(st, tgt[1], tgt[2], ("vec", cur[1] + (args[1],)))
                else:
                    self.write_loc(st, tgt[1], tgt[2], ("vec", (("evs?", cur), args[1])))
                st.effects.append(("push", tgt[1], args[1], site, tgt[2]))
                return ret(UNIT())
            return None
        if p == "std::io::IoSlice::<'a>::new":
            a0 = args[0]
            return ret(("io", ("loc", a0[1], a0[2]) if a0[0] == "ref" else a0))
        if p in ("std::vec::Vec::<T, A>::extend_from_slice", "std::vec::Vec::<T, A>::append") and tracked_elem(info["targs"][0]):
            tgt = args[0]
            src = args[1]
            if tgt[0] == "ref":
                cur = self.read_loc(st, tgt[1], tgt[2])
                if p.endswith("append"):
                    sv = self.read_loc(st, src[1], src[2]) if src[0] == "ref" else src
                    items = sv[1] if sv[0] == "vec" else (("nested", sv),)
                else:
                    items = (("slice", ("loc", src[1], src[2]) if src[0] == "ref" else src),)
                    if src[0] == "ref":
                        sv0 = self.read_loc(st, src[1], src[2])
                        if sv0[0] == "arr" and not sv0[1]:
                            items = ()                      # `&[]`: nothing is appended
                        elif src[1][0] == "L" and sv0[0] == "sym" and sv0[1][0] == "call":
                            items = (("slice", sv0),)       # a temporary (`&len.to_be_bytes()`): named by its value, the local dies
                base = cur[1] if cur[0] == "vec" else (("evs?", cur),)
                self.write_loc(st, tgt[1], tgt[2], ("vec", base + items))
                return ret(UNIT())
            return None
        if p == "std::slice::<impl [T]>::concat" and len(args) == 1:
            # [part, part, ..].concat(): the parts in order (a part that is itself a tracked vector contributes its items)
            a0 = args[0]
            arrv = self.read_loc(st, a0[1], a0[2]) if a0[0] == "ref" else a0
            if arrv[0] == "ref":
                arrv = self.read_loc(st, arrv[1], arrv[2])
            if arrv[0] == "arr":
                items = ()
                for el in arrv[1]:
                    if el[0] == "ref":
                        pv = self.read_loc(st, el[1], el[2])
                        if pv[0] == "vec":
                            items += tuple(pv[1])
                        elif pv[0] == "arr" and not pv[1]:
                            pass
                        else:
                            items += (("slice", ("loc", el[1], el[2])),)
                    else:
                        items += (("slice", el),)
                return ret(("vec", items))
            return None
        if p == "std::slice::<impl [T]>::to_vec" and tracked_elem(info["targs"][0]):
            a0 = args[0]
            return ret(("vec", (("slice", ("loc", a0[1], a0[2]) if a0[0] == "ref" else a0),)))
        if p == "std::iter::Extend::extend" and info["targs"] and (
                "GenericEvent" in info["targs"][0] or (len(info["targs"]) > 1 and tracked_elem(info["targs"][1]))):
            tgt = args[0]
            src = args[1]
            if tgt[0] == "ref":
                cur = self.read_loc(st, tgt[1], tgt[2])
                items = src[1] if src[0] in ("vec", "arr") else ((("evs?", src),) if "GenericEvent" in info["targs"][0] else (("nested", src),))
                base = cur[1] if cur[0] == "vec" else (("evs?", cur),)
                self.write_loc(st, tgt[1], tgt[2], ("vec", base + items))
                for it in items:
                    st.effects.append(("push", tgt[1], it, site))
                return ret(UNIT())
            return None
        # ---- conversions keep provenance
        if p in ("std::convert::Into::into", "std::convert::From::from") and path in self.F.fns and "mqtt::result_code" in path \
                and args and (args[0][0] == "c" or (args[0][0] == "agg" and not args[0][3])):
            return None  # in-crate reason-code conversions are inlined (decided by their own match tables)
        if p in ("std::convert::Into::into", "std::convert::From::from") :
            tgt_ty = info["targs"][-1] if p.endswith("into") else info["targs"][0]
            INTS = ("u8", "u16", "u32", "u64", "u128", "usize", "i32", "i64")
            if path not in self.F.fns and tgt_ty in INTS and args and args[0][0] == "c" and isinstance(args[0][1], int):
                return ret(C(args[0][1], tgt_ty))          # lossless std integer / bool widening of a constant
            return ret(SYM(self.cap(("into", args[0], tgt_ty))))
        if p == "std::clone::Clone::clone":
            v = self.deref(st, args[0])
            return ret(v)
        # ---- Option / Result
        if p in ("std::option::Option::<T>::is_some", "std::option::Option::<T>::is_none",
                 "std::result::Result::<T, E>::is_ok", "std::result::Result::<T, E>::is_err"):
            v = self.deref(st, args[0])
            adt = "std::option::Option" if "option" in p else "std::result::Result"
            want = {"is_some": "Some", "is_none": "None", "is_ok": "Ok", "is_err": "Err"}[name]
            if v[0] == "agg":
                return ret(C(1 if v[2] == want else 0, "bool"))
            if v[0] == "sym":
                return ret(SYM(("enum_eq", v[1], adt, want)))
            return None
        if p in ("std::option::Option::<T>::unwrap", "std::option::Option::<T>::expect",
                 "std::result::Result::<T, E>::unwrap", "std::result::Result::<T, E>::expect"):
            v = args[0]
            adt = "std::option::Option" if "option" in p else "std::result::Result"
            good = "Some" if "option" in p else "Ok"
            if v[0] == "agg":
                if v[2] == good:
                    st.effects.append(("unwrap", p, v, site, "discharged"))
                    return ret(v[3][0])
                st.effects.append(("unwrap", p, v, site, "fails"))
                self.finish_path(st, None, "panic")
                return "stop"
            if v[0] == "sym":
                dt = ("discr", v[1], adt)
                gd = self.variant_discr(adt, good)
                known = st.cons.get(dt) == ("eq", gd)
                snap = dict(st.cons)
                if not self.constrain(st, dt, "eq", gd):
                    st.effects.append(("unwrap", p, v, site, "fails"))
                    self.finish_path(st, None, "panic")
                    return "stop"
                st.effects.append(("unwrap", p, v, site, "discharged" if known else "open", None if known else snap))
                return ret(SYM(self.cap(("field", v[1], 0))))
            st.effects.append(("unwrap", p, v, site, "open"))
            return None
        if p in ("std::result::Result::<T, E>::unwrap_or", "std::option::Option::<T>::unwrap_or", "std::option::Option::<T>::or"):
            v = args[0]
            is_or = p.endswith("::or")
            if v[0] == "agg":
                if is_or:
                    return ret(v if v[2] == "Some" else args[1])
                return ret(v[3][0] if v[2] in ("Ok", "Some") else args[1])
            if v[0] == "sym":
                # decide the variant: one successor per feasible variant
                adt = "std::option::Option" if "option" in p else "std::result::Result"
                good, bad = ("Some", "None") if adt.endswith("Option") else ("Ok", "Err")
                dt = ("discr", v[1], adt)
                alts = []
                for variant in (good, bad):
                    s2 = st.clone()
                    if self.constrain(s2, dt, "eq", self.variant_discr(adt, variant)):
                        k2 = self.clone_stack(stack)
                        if variant == good:
                            val = v if is_or else SYM(self.cap(("field", v[1], 0)))
                        else:
                            val = args[1]
                        self.write_place(s2, k2[-1], dest, val, site)
                        if target is None:
                            continue
                        k2[-1].bb = target
                        alts.append((s2, k2))
                if not alts:
                    self.finish_path(st, None, "diverge")
                    return "stop"
                return ("fork", alts)
            return None
        if p == "std::option::Option::<T>::unwrap_or_default" and args and args[0][0] == "agg":
            v = args[0]
            if v[2] == "Some":
                return ret(v[3][0])
            ty = info["targs"][0] if info.get("targs") else ""
            if ty.startswith("std::vec::Vec<"):
                el = ty[len("std::vec::Vec<"):-1]
                return ret(("vec", ()) if tracked_elem(el) else self.cseq_new(st, "default", []))
            if ty == "bool":
                return ret(C(0, "bool"))
            if ty in ("u8", "u16", "u32", "u64", "usize"):
                return ret(C(0, ty))
            if re.match(r"^&('\w+ )?\[[\w:]+\]$", ty):
                return ret(("arr", ()))          # <&[T]>::default() is the empty slice
            return None
        if p == "std::ops::Try::branch":
            v = args[0]
            ty = info["targs"][0]
            if ty.startswith("std::result::Result"):
                adt, good, bad = "std::result::Result", "Ok", "Err"
            elif ty.startswith("std::option::Option"):
                adt, good, bad = "std::option::Option", "Some", "None"
            else:
                return None
            CF = "std::ops::ControlFlow"

            def mk(variant):
                if variant == good:
                    inner = v[3][0] if v[0] == "agg" else SYM(self.cap(("field", v[1], 0)))
                    return AGG(CF, "Continue", (inner,))
                if adt.endswith("Option"):
                    return AGG(CF, "Break", (AGG(adt, "None"),))
                inner = v[3][0] if v[0] == "agg" else SYM(self.cap(("field", v[1], 0)))
                return AGG(CF, "Break", (AGG(adt, "Err", (inner,)),))
            if v[0] == "agg":
                return ret(mk(v[2]))
            if v[0] == "sym":
                dt = ("discr", v[1], adt)
                alts = []
                for variant in (good, bad):
                    s2 = st.clone()
                    if self.constrain(s2, dt, "eq", self.variant_discr(adt, variant)):
                        k2 = self.clone_stack(stack)
                        self.write_place(s2, k2[-1], dest, mk(variant), site)
                        if target is None:
                            continue
                        k2[-1].bb = target
                        alts.append((s2, k2))
                if not alts:
                    self.finish_path(st, None, "diverge")
                    return "stop"
                return ("fork", alts)
            return None
        if p == "std::ops::FromResidual::from_residual":
            v = args[0]
            if v[0] == "agg" and v[1] == "std::option::Option":
                return ret(AGG("std::option::Option", "None"))
            if v[0] == "agg" and v[1] == "std::result::Result":
                return ret(AGG("std::result::Result", "Err", (SYM(self.cap(("from", v[3][0] if v[3] else UNIT()))),)))
            return None
        if p == "std::default::Default::default" and info.get("targs"):
            ty = info["targs"][0]
            if ty.startswith("std::option::Option<"):
                return ret(AGG("std::option::Option", "None"))
            if ty == "bool":
                return ret(C(0, "bool"))
            if ty in ("u8", "u16", "u32", "u64", "usize", "i32", "i64"):
                return ret(C(0, ty))
            return None
        # ---- integer helper methods on constants
        mnum = re.match(r"^std::num::<impl (u8|u16|u32|u64|u128|usize)>::(saturating_sub|saturating_add|saturating_mul|checked_sub|checked_add|wrapping_sub|wrapping_add|min|max|pow)$", path)
        if mnum is None and p in ("std::cmp::Ord::min", "std::cmp::Ord::max") and len(args) == 2 and args[0][0] == "c" and args[1][0] == "c":
            return ret(C(min(args[0][1], args[1][1]) if p.endswith("min") else max(args[0][1], args[1][1]), args[0][2]))
        if mnum and len(args) == 2 and args[0][0] == "c" and args[1][0] == "c" and isinstance(args[0][1], int) and isinstance(args[1][1], int):
            ty, opn = mnum.group(1), mnum.group(2)
            lo, hi = int_range(ty)
            x, y = args[0][1], args[1][1]
            OPT = "std::option::Option"
            if opn == "saturating_sub":
                return ret(C(max(x - y, lo), ty))
            if opn == "saturating_add":
                return ret(C(min(x + y, hi), ty))
            if opn == "saturating_mul":
                return ret(C(min(x * y, hi), ty))
            if opn == "checked_sub":
                return ret(AGG(OPT, "Some", (C(x - y, ty),)) if x - y >= lo else AGG(OPT, "None"))
            if opn == "checked_add":
                return ret(AGG(OPT, "Some", (C(x + y, ty),)) if x + y <= hi else AGG(OPT, "None"))
            if opn == "wrapping_sub":
                return ret(C((x - y) % (hi + 1), ty))
            if opn == "wrapping_add":
                return ret(C((x + y) % (hi + 1), ty))
            if opn in ("min", "max"):
                return ret(C(min(x, y) if opn == "min" else max(x, y), ty))
        # ---- checked_sub / checked_add on symbolic unsigned values: Some(a - b) exactly when it does not wrap
        if mnum and mnum.group(2) in ("checked_sub", "checked_add") and len(args) == 2 and (args[0][0] == "sym" or args[1][0] == "sym"):
            ty, opn = mnum.group(1), mnum.group(2)
            OPT = "std::option::Option"
            if opn == "checked_sub":
                cond = self.binop(st, "Lt", args[0], args[1])          # a < b: would wrap
                val = SYM(self.cap(("bin", "Sub", args[0], args[1])))
                alts = []
                for truth, res_ in ((False, AGG(OPT, "Some", (val,))), (True, AGG(OPT, "None"))):
                    s2 = st.clone()
                    r = self.eval_bool(s2, cond)
                    if isinstance(r, bool):
                        if r != truth:
                            continue
                    elif not self.assume_bool(s2, r, truth):
                        continue
                    # `x.checked_sub(k)` with a small constant k on (a lossless widening of) a finite-domain value: the
                    # outcome also bounds the value underneath (None: x in 0..k, Some: x not in 0..k)
                    if args[1][0] == "c" and isinstance(args[1][1], int) and 0 < args[1][1] <= 8 and args[0][0] == "sym":
                        u_ = args[0][1]
                        for _i in range(4):
                            if isinstance(u_, tuple) and len(u_) == 2 and u_[0] == "#":
                                u_ = self.interned_rev.get(u_[1], u_)
                            if isinstance(u_, tuple) and u_ and ((u_[0] == "into" and len(u_) > 2) or (u_[0] == "cast" and len(u_) > 2 and u_[2] in ("usize", "u64", "u32", "u16"))) \
                                    and isinstance(u_[1], tuple) and u_[1] and u_[1][0] == "sym":
                                u_ = u_[1][1]
                            else:
                                break
                        okc = True
                        if truth and args[1][1] == 1:
                            okc = self.constrain(s2, u_, "eq", 0)
                        elif not truth:
                            for j_ in range(args[1][1]):
                                okc = okc and self.constrain(s2, u_, "ne", j_)
                        if not okc:
                            continue
                    k2 = self.clone_stack(stack)
                    self.write_place(s2, k2[-1], dest, res_, site)
                    if target is None:
                        continue
                    k2[-1].bb = target
                    alts.append((s2, k2))
                if not alts:
                    self.finish_path(st, None, "diverge")
                    return "stop"
                return ("fork", alts)
        # ---- iteration over an array literal: concrete, element by element (finite, so no loop bound applies)
        if path.endswith("IntoIterator for [T; N]>::into_iter") and args and args[0][0] == "arr":
            return ret(("arriter", args[0][1], 0))
        if path == "<I as std::iter::IntoIterator>::into_iter" and args and args[0][0] == "arriter":
            return ret(args[0])
        if path == "<std::array::IntoIter<T, N> as std::iter::Iterator>::next" and args and args[0][0] == "ref":
            cur = self.read_loc(st, args[0][1], args[0][2])
            if cur[0] == "arriter":
                items, i = cur[1], cur[2]
                if i < len(items):
                    self.write_loc(st, args[0][1], args[0][2], ("arriter", items, i + 1))
                    # the loop makes progress through a finite literal: do not count this round against the loop bound
                    for kk in [kk for kk in st.visits if kk[0] == fr.depth]:
                        del st.visits[kk]
                    return ret(AGG("std::option::Option", "Some", (items[i],)))
                return ret(AGG("std::option::Option", "None"))
        # ---- IndexMap::get_index(i): Some(..) exactly when i < len
        if p in ("indexmap::IndexMap::<K, V, S>::get_index", "indexmap::IndexSet::<T, S>::get_index") and len(args) == 2:
            base = self.deref(st, args[0]) if args[0][0] == "ref" else args[0]
            ln = SYM(self.cap(("call", p.rsplit("::", 1)[0] + "::len", (base,))))
            cond = self.binop(st, "Lt", args[1], ln)
            OPT = "std::option::Option"
            some = AGG(OPT, "Some", (SYM(self.cap(("call", p, (base, args[1])))),))
            alts = []
            for truth, val in ((True, some), (False, AGG(OPT, "None"))):
                s2 = st.clone()
                r = self.eval_bool(s2, cond)
                if isinstance(r, bool):
                    if r != truth:
                        continue
                elif not self.assume_bool(s2, r, truth):
                    continue
                k2 = self.clone_stack(stack)
                s2.effects.append(("call", p, tuple(args), (base, args[1]), val, site))
                self.write_place(s2, k2[-1], dest, val, site)
                if target is None:
                    continue
                k2[-1].bb = target
                alts.append((s2, k2))
            if not alts:
                self.finish_path(st, None, "diverge")
                return "stop"
            return ("fork", alts)
        # ---- checked slice access: Some(..) exactly when the index / range is within the length
        if p == "std::slice::<impl [T]>::get" and len(args) == 2 and args[1][0] == "sym":
            # a look-up table: `TABLE.get(usize::from(kind))` on an array whose elements are known (a dispatch table of
            # function items, a table of constants) with a symbolic index - one case per entry plus "out of range",
            # exactly the case split the equivalent `match kind { 0 => .., 1 => .., _ => .. }` makes
            tb = args[0]
            for _ in range(2):
                if tb[0] == "ref":
                    tb = self.read_loc(st, tb[1], tb[2])
            if tb[0] == "arr" and 0 < len(tb[1]) <= 32:
                it_ = args[1][1]
                while isinstance(it_, tuple) and it_ and ((it_[0] == "into" and len(it_) > 2) or (it_[0] == "cast" and len(it_) > 2 and it_[2] in ("usize", "u64", "u32", "u16"))) \
                        and isinstance(it_[1], tuple) and it_[1] and it_[1][0] == "sym":
                    it_ = it_[1][1]                     # lossless widening of the index: decide the value underneath
                OPT = "std::option::Option"
                # an affine index (`kind - 1`, `kind + 1`): entry i is selected by kind == i + 1 / i - 1
                off_ = 0

                def peel(x_):
                    while isinstance(x_, tuple) and x_ and ((x_[0] == "into" and len(x_) > 2) or (x_[0] == "cast" and len(x_) > 2 and x_[2] in ("usize", "u64", "u32", "u16"))) \
                            and isinstance(x_[1], tuple) and x_[1] and x_[1][0] == "sym":
                        x_ = x_[1][1]
                    return x_
                if isinstance(it_, tuple) and len(it_) == 2 and it_[0] == "#":
                    it_ = self.interned_rev.get(it_[1], it_)
                if isinstance(it_, tuple) and it_ and it_[0] == "bin" and it_[1].replace("Unchecked", "").replace("WithOverflow", "") in ("Sub", "Add") \
                        and it_[3][0] == "c" and isinstance(it_[3][1], int):
                    base_ = it_[2]
                    if len(base_) == 2 and base_[0] == "#":
                        base_ = self.interned_rev.get(base_[1], base_)
                    if base_[0] == "sym":
                        inner_ = base_[1]
                        if isinstance(inner_, tuple) and len(inner_) == 2 and inner_[0] == "#":
                            inner_ = self.interned_rev.get(inner_[1], inner_)
                        off_ = it_[3][1] if it_[1].startswith("Sub") else -it_[3][1]
                        it_ = peel(inner_)
                self._cs_n = getattr(self, "_cs_n", 0) + 1
                troot = ("CS", "table", self._cs_n)
                alts = []
                for i_ in range(len(tb[1]) + 1):
                    s2 = st.clone()
                    if i_ < len(tb[1]):
                        if i_ + off_ < 0 or not self.constrain(s2, it_, "eq", i_ + off_):
                            continue
                        s2.heap[(troot, (("ci", i_),))] = tb[1][i_]
                        val = AGG(OPT, "Some", (("ref", troot, (("ci", i_),)),))
                    else:
                        okn = True
                        for j_ in range(len(tb[1])):
                            if j_ + off_ >= 0:
                                okn = okn and self.constrain(s2, it_, "ne", j_ + off_)
                        if not okn:
                            continue
                        val = AGG(OPT, "None")
                    k2 = self.clone_stack(stack)
                    self.write_place(s2, k2[-1], dest, val, site)
                    if target is None:
                        continue
                    k2[-1].bb = target
                    alts.append((s2, k2))
                if alts:
                    return ("fork", alts)
        if p in ("std::slice::<impl [T]>::first", "std::slice::<impl [T]>::get") and len(args) == (1 if p.endswith("first") else 2):
            base = args[0]
            ix = C(0, "usize") if p.endswith("first") else args[1]
            ln = SYM(self.cap(("len", base)))
            INDEX = "std::slice::index::<impl std::ops::Index<I> for [T]>::index"
            conds = None        # list of (bool value, required truth)
            if ix[0] in ("c", "sym"):
                conds = [(self.binop(st, "Lt", ix, ln), True)]
            elif ix[0] == "agg" and ix[2] == "RangeTo":
                conds = [(self.binop(st, "Lt", ln, ix[3][0]), False)]
            elif ix[0] == "agg" and ix[2] == "RangeFrom":
                conds = [(self.binop(st, "Lt", ln, ix[3][0]), False)]
            elif ix[0] == "agg" and ix[2] == "Range":
                conds = [(self.binop(st, "Lt", ix[3][1], ix[3][0]), False), (self.binop(st, "Lt", ln, ix[3][1]), False)]
            if conds is None:
                return None
            OPT = "std::option::Option"
            some = AGG(OPT, "Some", (SYM(self.cap(("call", INDEX, (base, ix)))),))
            alts = []

            def add_alt(assumptions, val):
                s2 = st.clone()
                for bv, truth in assumptions:
                    r = self.eval_bool(s2, bv)
                    if isinstance(r, bool):
                        if r != truth:
                            return
                    elif not self.assume_bool(s2, r, truth):
                        return
                k2 = self.clone_stack(stack)
                self.write_place(s2, k2[-1], dest, val, site)
                if target is None:
                    return
                k2[-1].bb = target
                alts.append((s2, k2))
            add_alt(conds, some)
            for i in range(len(conds)):
                add_alt(conds[:i] + [(conds[i][0], not conds[i][1])], AGG(OPT, "None"))
            if not alts:
                self.finish_path(st, None, "diverge")
                return "stop"
            return ("fork", alts)
        # ---- arrayvec::ArrayVec<u8, N>: a byte vector with a fixed capacity - the same word model as Vec<u8>
        if p.startswith("arrayvec::ArrayVec::<T, CAP>::") and info.get("targs") and info["targs"][0] == "u8":
            nm_ = p.split("::")[-1]
            if nm_ == "new" and not args:
                return ret(("vec", ()))
            if nm_ == "push" and len(args) == 2 and args[0][0] == "ref":
                cur = self.read_loc(st, args[0][1], args[0][2])
                if cur[0] == "vec":
                    self.write_loc(st, args[0][1], args[0][2], ("vec", cur[1] + (args[1],)))
                    return ret(UNIT())
            if nm_ in ("len",) and len(args) == 1 and args[0][0] == "ref":
                cur = self.read_loc(st, args[0][1], args[0][2])
                if cur[0] == "vec" and all(isinstance(x, tuple) and x and x[0] in ("c", "sym") for x in cur[1]):
                    return ret(C(len(cur[1]), "usize"))
        # ---- byte-level helpers on fully known values (concrete evaluation of decoders on concrete inputs)
        def known_arr(a):
            for _ in range(2):
                if a[0] == "ref":
                    a = self.read_loc(st, a[1], a[2])
            return a if (a[0] == "arr" and all(x[0] == "c" and isinstance(x[1], int) for x in a[1])) else None
        if p in ("std::slice::<impl [T]>::len",) and len(args) == 1 and known_arr(args[0]) is not None:
            return ret(C(len(known_arr(args[0])[1]), "usize"))
        mfb = re.match(r"^std::num::<impl (u8|u16|u32|u64|u128|usize)>::from_(be|le)_bytes$", p)
        if mfb and len(args) == 1 and known_arr(args[0]) is not None:
            bs = [x[1] & 0xFF for x in known_arr(args[0])[1]]
            return ret(C(int.from_bytes(bytes(bs), "big" if mfb.group(2) == "be" else "little"), mfb.group(1)))
        mtb = re.match(r"^std::num::<impl (u8|u16|u32|u64|u128)>::to_(be|le)_bytes$", p)
        if mtb and len(args) == 1 and args[0][0] == "c" and isinstance(args[0][1], int):
            w = int(mtb.group(1)[1:]) // 8
            bs = (args[0][1] & ((1 << (8 * w)) - 1)).to_bytes(w, "big" if mtb.group(2) == "be" else "little")
            return ret(("arr", tuple(C(b, "u8") for b in bs)))
        if EXT_INDEX_RE.search(p) and len(args) == 2 and known_arr(args[0]) is not None:
            items = known_arr(args[0])[1]
            ix = args[1]
            lo = hi = None
            if ix[0] == "c" and isinstance(ix[1], int):
                if 0 <= ix[1] < len(items):
                    tmpk = ("CS", "elt", id(items), ix[1])
                    st.heap[(tmpk, ())] = items[ix[1]]
                    return ret(("ref", tmpk, ()))
            elif ix[0] == "agg" and all(o[0] == "c" for o in ix[3]):
                if ix[2] == "RangeTo":
                    lo, hi = 0, ix[3][0][1]
                elif ix[2] == "RangeFrom":
                    lo, hi = ix[3][0][1], len(items)
                elif ix[2] == "Range":
                    lo, hi = ix[3][0][1], ix[3][1][1]
                elif ix[2] == "RangeFull":
                    lo, hi = 0, len(items)
                if lo is not None and 0 <= lo <= hi <= len(items):
                    self._cs_n = getattr(self, "_cs_n", 0) + 1
                    tmpk = ("CS", "sub", self._cs_n)
                    st.heap[(tmpk, ())] = ("arr", tuple(items[lo:hi]))
                    return ret(("ref", tmpk, ()))
        if p in ("std::convert::TryInto::try_into", "<T as std::convert::TryInto<U>>::try_into") and len(args) == 1 and known_arr(args[0]) is not None \
                and info.get("targs") and re.match(r"^\[u8; (\d+)\]$", info["targs"][-1]):
            nn = int(re.match(r"^\[u8; (\d+)\]$", info["targs"][-1]).group(1))
            RES = "std::result::Result"
            if len(known_arr(args[0])[1]) == nn:
                return ret(AGG(RES, "Ok", (known_arr(args[0]),)))
            return ret(AGG(RES, "Err", (SYM(("tryfromsliceerror",)),)))
        # ---- bool::then_some(x): Some(x) when the flag is set, None otherwise
        if p == "std::bool::<impl bool>::then_some" and len(args) == 2:
            OPT = "std::option::Option"
            cond = args[0]
            alts = []
            for truth, val in ((True, AGG(OPT, "Some", (args[1],))), (False, AGG(OPT, "None"))):
                s2 = st.clone()
                r = self.eval_bool(s2, cond)
                if isinstance(r, bool):
                    if r != truth:
                        continue
                elif not self.assume_bool(s2, r, truth):
                    continue
                k2 = self.clone_stack(stack)
                self.write_place(s2, k2[-1], dest, val, site)
                if target is None:
                    continue
                k2[-1].bb = target
                alts.append((s2, k2))
            if not alts:
                self.finish_path(st, None, "diverge")
                return "stop"
            return ("fork", alts)
        # ---- split_at: (&x[..n], &x[n..]); its precondition n <= len is an obligation of the panic ledger (STD_PANICS)
        if p in ("std::slice::<impl [T]>::split_at", "std::slice::<impl [T]>::split_at_mut") and len(args) == 2:
            base, n_ = args[0], args[1]
            if base[0] == "ref" and base[1][0] == "L":
                bv = self.read_loc(st, base[1], base[2])
                if bv[0] == "arr":
                    base = bv          # a local array of known size: its length travels with the halves
            INDEX = "std::slice::index::<impl std::ops::Index<I> for [T]>::index"
            left = SYM(self.cap(("call", INDEX, (base, AGG("std::ops::RangeTo", "RangeTo", (n_,))))))
            right = SYM(self.cap(("call", INDEX, (base, AGG("std::ops::RangeFrom", "RangeFrom", (n_,))))))
            st.effects.append(("call", p, tuple(args), (self.deref(st, base) if base[0] == "ref" else base, n_), ("tup", (left, right)), site, dict(st.cons)))
            return ret(("tup", (left, right)))
        # ---- split_first_chunk::<N>: Some((&x[..N] as &[T; N], &x[N..])) exactly when N <= len
        if p in ("std::slice::<impl [T]>::split_first_chunk", "std::slice::<impl [T]>::first_chunk") and len(args) == 1 and info.get("targs"):
            nn = None
            for ta in info["targs"]:
                mm = re.match(r"^(\d+)(_?usize)?$", ta)
                if mm:
                    nn = int(mm.group(1))
                elif fr.consts and ta in fr.consts:
                    nn = fr.consts[ta]
            if nn is not None and known_arr(args[0]) is not None:
                # concrete input: decided, and the chunk is the known prefix
                items = known_arr(args[0])[1]
                OPT = "std::option::Option"
                if nn > len(items):
                    return ret(AGG(OPT, "None"))
                self._cs_n = getattr(self, "_cs_n", 0) + 1
                k1, k2_ = ("CS", "chunk", self._cs_n), ("CS", "rest", self._cs_n)
                st.heap[(k1, ())] = ("arr", tuple(items[:nn]))
                st.heap[(k2_, ())] = ("arr", tuple(items[nn:]))
                l_, r_ = ("ref", k1, ()), ("ref", k2_, ())
                return ret(AGG(OPT, "Some", ((("tup", (l_, r_)) if p.endswith("split_first_chunk") else l_),)))
            if nn is not None:
                base = args[0]
                n_ = C(nn, "usize")
                ln = SYM(self.cap(("len", base)))
                INDEX = "std::slice::index::<impl std::ops::Index<I> for [T]>::index"
                OPT = "std::option::Option"
                cond = self.binop(st, "Lt", ln, n_)           # len < N: None
                left = SYM(self.cap(("call", INDEX, (base, AGG("std::ops::RangeTo", "RangeTo", (n_,))))))
                right = SYM(self.cap(("call", INDEX, (base, AGG("std::ops::RangeFrom", "RangeFrom", (n_,))))))
                some = AGG(OPT, "Some", ((("tup", (left, right)) if p.endswith("split_first_chunk") else left),))
                alts = []
                for truth, val in ((False, some), (True, AGG(OPT, "None"))):
                    s2 = st.clone()
                    r = self.eval_bool(s2, cond)
                    if isinstance(r, bool):
                        if r != truth:
                            continue
                    elif not self.assume_bool(s2, r, truth):
                        continue
                    k2 = self.clone_stack(stack)
                    self.write_place(s2, k2[-1], dest, val, site)
                    if target is None:
                        continue
                    k2[-1].bb = target
                    alts.append((s2, k2))
                if not alts:
                    self.finish_path(st, None, "diverge")
                    return "stop"
                return ("fork", alts)
        # ---- split_at_checked: Some((&x[..n], &x[n..])) exactly when n <= len
        if p == "std::slice::<impl [T]>::split_at_checked" and len(args) == 2:
            base, n_ = args[0], args[1]
            ln = SYM(self.cap(("len", base)))
            INDEX = "std::slice::index::<impl std::ops::Index<I> for [T]>::index"
            OPT = "std::option::Option"
            cond = self.binop(st, "Lt", ln, n_)           # len < n: None
            left = SYM(self.cap(("call", INDEX, (base, AGG("std::ops::RangeTo", "RangeTo", (n_,))))))
            right = SYM(self.cap(("call", INDEX, (base, AGG("std::ops::RangeFrom", "RangeFrom", (n_,))))))
            alts = []
            for truth, val in ((False, AGG(OPT, "Some", (("tup", (left, right)),))), (True, AGG(OPT, "None"))):
                s2 = st.clone()
                r = self.eval_bool(s2, cond)
                if isinstance(r, bool):
                    if r != truth:
                        continue
                elif not self.assume_bool(s2, r, truth):
                    continue
                k2 = self.clone_stack(stack)
                self.write_place(s2, k2[-1], dest, val, site)
                if target is None:
                    continue
                k2[-1].bb = target
                alts.append((s2, k2))
            if not alts:
                self.finish_path(st, None, "diverge")
                return "stop"
            return ("fork", alts)
        # ---- Option::ok_or: Some(v) -> Ok(v), None -> Err(e)
        if p == "std::option::Option::<T>::ok_or" and len(args) == 2:
            v = args[0]
            RES = "std::result::Result"
            if v[0] == "agg":
                return ret(AGG(RES, "Ok", (v[3][0],)) if v[2] == "Some" else AGG(RES, "Err", (args[1],)))
            if v[0] == "sym":
                dt = ("discr", v[1], "std::option::Option")
                alts = []
                for variant in ("Some", "None"):
                    s2 = st.clone()
                    if not self.constrain(s2, dt, "eq", self.variant_discr("std::option::Option", variant)):
                        continue
                    k2 = self.clone_stack(stack)
                    val = AGG(RES, "Ok", (SYM(self.cap(("field", v[1], 0))),)) if variant == "Some" else AGG(RES, "Err", (args[1],))
                    self.write_place(s2, k2[-1], dest, val, site)
                    if target is None:
                        continue
                    k2[-1].bb = target
                    alts.append((s2, k2))
                if not alts:
                    self.finish_path(st, None, "diverge")
                    return "stop"
                return ("fork", alts)
        # ---- split_first: Some((&x[0], &x[1..])) exactly when the slice is not empty
        if p == "std::slice::<impl [T]>::split_first" and len(args) == 1:
            base = args[0]
            ln = SYM(self.cap(("len", base)))
            INDEX = "std::slice::index::<impl std::ops::Index<I> for [T]>::index"
            OPT = "std::option::Option"
            cond = self.binop(st, "Lt", C(0, "usize"), ln)
            first = SYM(self.cap(("call", INDEX, (base, C(0, "usize")))))
            rest = SYM(self.cap(("call", INDEX, (base, AGG("std::ops::RangeFrom", "RangeFrom", (C(1, "usize"),))))))
            alts = []
            for truth, val in ((True, AGG(OPT, "Some", (("tup", (first, rest)),))), (False, AGG(OPT, "None"))):
                s2 = st.clone()
                r = self.eval_bool(s2, cond)
                if isinstance(r, bool):
                    if r != truth:
                        continue
                elif not self.assume_bool(s2, r, truth):
                    continue
                k2 = self.clone_stack(stack)
                self.write_place(s2, k2[-1], dest, val, site)
                if target is None:
                    continue
                k2[-1].bb = target
                alts.append((s2, k2))
            if not alts:
                self.finish_path(st, None, "diverge")
                return "stop"
            return ("fork", alts)
        # ---- mem::take / mem::replace / Option::take / Option::replace: read the place, write the new value
        if p in ("std::mem::take", "std::mem::replace", "std::option::Option::<T>::take", "std::option::Option::<T>::replace"):
            a0 = args[0]
            if a0[0] != "ref":
                return None
            cur = self.read_loc(st, a0[1], a0[2])
            if p == "std::mem::replace":
                newv = args[1]
            elif p.endswith("Option::<T>::replace"):
                newv = AGG("std::option::Option", "Some", (args[1],))
            elif p.endswith("Option::<T>::take"):
                newv = AGG("std::option::Option", "None")
            else:
                ty = info["targs"][0] if info.get("targs") else ""
                if ty.startswith("std::option::Option<"):
                    newv = AGG("std::option::Option", "None")
                elif ty == "bool":
                    newv = C(0, "bool")
                elif ty in ("u8", "u16", "u32", "u64", "usize", "i32", "i64", "u128"):
                    newv = C(0, ty)
                elif ty.startswith("std::vec::Vec<") and tracked_elem(ty[len("std::vec::Vec<"):-1]):
                    newv = ("vec", ())
                else:
                    return None
            if a0[1][0] != "L":
                st.effects.append(("write", a0[1], a0[2], newv, site))
            self.write_loc(st, a0[1], a0[2], newv)
            return ret(cur)
        if p in ("std::option::Option::<T>::as_ref", "std::option::Option::<T>::as_mut",
                 "std::option::Option::<T>::as_deref", "std::option::Option::<T>::as_deref_mut"):
            # (as_deref: the reference to the payload stands for the reference to what it derefs to - Vec -> slice, String -> str)
            a0 = args[0]
            OPT = "std::option::Option"
            if a0[0] != "ref":
                return None
            v = self.read_loc(st, a0[1], a0[2])
            some = AGG(OPT, "Some", (("ref", a0[1], a0[2] + (("dc", "Some"), ("f", 0, None))),))
            if v[0] == "agg":
                return ret(AGG(OPT, "None") if v[2] == "None" else some)
            if v[0] == "sym":
                dt = ("discr", v[1], OPT)
                alts = []
                for variant, val in (("Some", some), ("None", AGG(OPT, "None"))):
                    s2 = st.clone()
                    if self.constrain(s2, dt, "eq", self.variant_discr(OPT, variant)):
                        k2 = self.clone_stack(stack)
                        self.write_place(s2, k2[-1], dest, val, site)
                        if target is None:
                            continue
                        k2[-1].bb = target
                        alts.append((s2, k2))
                if not alts:
                    self.finish_path(st, None, "diverge")
                    return "stop"
                return ("fork", alts)
            return None
        if (p in ("std::option::Option::<T>::iter", "std::option::Option::<T>::iter_mut") or
                (name == "into_iter" and isinstance(path, str) and "std::option::Option<T>" in path and "IntoIterator" in path)) and len(args) == 1:
            # an Option iterated as a sequence of zero or one element (`bufs.extend(self.reason_code.iter().map(..))`)
            OPT = "std::option::Option"
            a0 = args[0]
            byref = a0[0] == "ref"
            v = self.read_loc(st, a0[1], a0[2]) if byref else a0
            if byref and v[0] == "ref":
                a0, v = v, self.read_loc(st, v[1], v[2])

            def seq_for(s_, variant):
                if variant == "None":
                    cs = self.cseq_new(s_, "opt", [])
                elif byref:
                    cs = self.cseq_new(s_, "opt", [("ref", a0[1], a0[2] + (("dc", "Some"), ("f", 0, None)))])
                else:
                    cs = self.cseq_new(s_, "opt", [v[3][0] if v[0] == "agg" else SYM(self.cap(("field", v[1], 0)))])
                return ("citer", cs[1], cs[2], 0, (), False)
            if v[0] == "agg" and v[1] == OPT:
                return ret(seq_for(st, v[2]))
            if v[0] == "sym":
                dt = ("discr", v[1], OPT)
                alts = []
                for variant in ("Some", "None"):
                    s2 = st.clone()
                    if not self.constrain(s2, dt, "eq", self.variant_discr(OPT, variant)):
                        continue
                    k2 = self.clone_stack(stack)
                    self.write_place(s2, k2[-1], dest, seq_for(s2, variant), site)
                    if target is None:
                        continue
                    k2[-1].bb = target
                    alts.append((s2, k2))
                if not alts:
                    self.finish_path(st, None, "diverge")
                    return "stop"
                return ("fork", alts)
            return None
        if p in ("std::option::Option::<&T>::copied", "std::option::Option::<&T>::cloned", "std::option::Option::<&mut T>::copied",
                 "std::option::Option::<&mut T>::cloned") and len(args) == 1 and args[0][0] == "agg":
            v = args[0]
            if v[2] == "None":
                return ret(v)
            inner = v[3][0]
            return ret(AGG("std::option::Option", "Some", ((self.deref(st, inner) if inner[0] == "ref" else inner),)))
        if p == "std::option::Option::<(T, U)>::unzip":
            # Some((a, b)) -> (Some(a), Some(b));  None -> (None, None)
            v = args[0]
            OPT = "std::option::Option"
            none2 = ("tup", (AGG(OPT, "None"), AGG(OPT, "None")))
            if v[0] == "agg":
                if v[2] == "None":
                    return ret(none2)
                pr = v[3][0]
                if pr[0] == "tup" and len(pr[1]) == 2:
                    return ret(("tup", (AGG(OPT, "Some", (pr[1][0],)), AGG(OPT, "Some", (pr[1][1],)))))
                if pr[0] == "sym":
                    return ret(("tup", (AGG(OPT, "Some", (SYM(self.cap(("field", pr[1], 0))),)), AGG(OPT, "Some", (SYM(self.cap(("field", pr[1], 1))),)))))
                return None
            if v[0] == "sym":
                dt = ("discr", v[1], OPT)
                alts = []
                for variant in ("Some", "None"):
                    s2 = st.clone()
                    if not self.constrain(s2, dt, "eq", self.variant_discr(OPT, variant)):
                        continue
                    k2 = self.clone_stack(stack)
                    if variant == "Some":
                        pl = ("field", v[1], 0)
                        val = ("tup", (AGG(OPT, "Some", (SYM(self.cap(("field", pl, 0))),)), AGG(OPT, "Some", (SYM(self.cap(("field", pl, 1))),))))
                    else:
                        val = none2
                    self.write_place(s2, k2[-1], dest, val, site)
                    if target is None:
                        continue
                    k2[-1].bb = target
                    alts.append((s2, k2))
                if not alts:
                    self.finish_path(st, None, "diverge")
                    return "stop"
                return ("fork", alts)
            return None
        if p == "std::option::Option::<std::option::Option<T>>::flatten":
            v = args[0]
            if v[0] == "agg":
                if v[2] == "None":
                    return ret(v)
                inner = v[3][0]
                if inner[0] == "agg":
                    return ret(inner)
                return ret(inner)
            if v[0] == "sym":
                # flatten(None) = None, flatten(Some(x)) = x: decide the outer variant, keep the inner option as it is
                OPT = "std::option::Option"
                dt = ("discr", v[1], OPT)
                alts = []
                for variant in ("Some", "None"):
                    s2 = st.clone()
                    if not self.constrain(s2, dt, "eq", self.variant_discr(OPT, variant)):
                        continue
                    k2 = self.clone_stack(stack)
                    val = SYM(self.cap(("field", v[1], 0))) if variant == "Some" else AGG(OPT, "None")
                    self.write_place(s2, k2[-1], dest, val, site)
                    if target is None:
                        continue
                    k2[-1].bb = target
                    alts.append((s2, k2))
                if not alts:
                    self.finish_path(st, None, "diverge")
                    return "stop"
                return ("fork", alts)
            return None
        # ---- enum equality
        if p in ("std::cmp::PartialEq::eq", "std::cmp::PartialEq::ne"):
            a = self.deref(st, args[0])
            b = self.deref(st, args[1])
            neg = p.endswith("::ne")

            def out(v):
                if neg:
                    if v[0] == "c":
                        return C(0 if v[1] else 1, "bool")
                    return SYM(("not", v))
                return v
            if a[0] == "agg" and b[0] == "agg" and not a[3] and not b[3]:
                return ret(out(C(1 if (a[1], a[2]) == (b[1], b[2]) else 0, "bool")))
            se = struct_eq(a, b)
            if se is not None:
                return ret(out(C(1 if se else 0, "bool")))
            for (x, y) in ((a, b), (b, a)):
                if x[0] == "sym" and y[0] == "agg" and not y[3]:
                    return ret(out(SYM(("enum_eq", x[1], y[1], y[2]))))
            if a[0] == "c" and b[0] == "c":
                return ret(out(C(1 if a[1] == b[1] else 0, "bool")))
            OPTRES = ("std::option::Option", "std::result::Result")
            if a[0] == "agg" and b[0] == "agg" and a[1] == b[1] and a[1] in OPTRES:
                if a[2] != b[2]:
                    return ret(out(C(0, "bool")))
                if len(a[3]) == 1 and len(b[3]) == 1 and a[3][0][0] in ("c", "sym") and b[3][0][0] in ("c", "sym"):
                    return ret(out(self.binop(st, "Eq", a[3][0], b[3][0])))
            for (x, y) in ((a, b), (b, a)):
                # opt == Some(v): decide opt's variant, then compare the payloads
                if x[0] == "sym" and y[0] == "agg" and y[1] in OPTRES and len(y[3]) == 1 and y[3][0][0] in ("c", "sym"):
                    dt = ("discr", x[1], y[1])
                    alts = []
                    others = [vv["name"] for vv in self.F.adt(y[1])["variants"] if vv["name"] != y[2]] if y[1] in self.F.adts else \
                        [n for n in (("Some", "None") if y[1].endswith("Option") else ("Ok", "Err")) if n != y[2]]
                    for variant in [y[2]] + others:
                        s2 = st.clone()
                        if not self.constrain(s2, dt, "eq", self.variant_discr(y[1], variant)):
                            continue
                        k2 = self.clone_stack(stack)
                        if variant == y[2]:
                            val = out(self.binop(s2, "Eq", SYM(self.cap(("field", x[1], 0))), y[3][0]))
                        else:
                            val = out(C(0, "bool"))
                        self.write_place(s2, k2[-1], dest, val, site)
                        if target is None:
                            continue
                        k2[-1].bb = target
                        alts.append((s2, k2))
                    if not alts:
                        self.finish_path(st, None, "diverge")
                        return "stop"
                    return ("fork", alts)
            return ret(out(SYM(self.cap(("cmp", "Eq", a, b)))))
        if p in ("std::cmp::PartialOrd::lt", "std::cmp::PartialOrd::le", "std::cmp::PartialOrd::gt", "std::cmp::PartialOrd::ge"):
            a = self.deref(st, args[0])
            b = self.deref(st, args[1])
            op = {"lt": "Lt", "le": "Le", "gt": "Gt", "ge": "Ge"}[name]
            return ret(self.binop(st, op, a, b))
        if p in ("std::slice::<impl [T]>::is_empty", "std::vec::Vec::<T, A>::is_empty", "std::str::<impl str>::is_empty"):
            a = self.deref(st, args[0])
            if a[0] == "vec":
                return ret(C(1 if not a[1] else 0, "bool")) if not any(isinstance(x, tuple) and x and x[0] in ("evs?", "nested", "sub") for x in a[1]) else None
            rv = self.binop(st, "Eq", SYM(self.cap(("len", a))), C(0, "usize"))
            st.effects.append(("call", path, tuple(args), (a,), rv, site))     # kept visible to the rules
            return ret(rv)
        # ---- TypeId role tests
        if p == "std::any::TypeId::of":
            return ret(SYM(("typeid", info["targs"][0])))
        # ---- Option / Result combinators taking a local closure: decided by the receiver's variant
        COMB = {"std::option::Option::<T>::map_or": ("opt", "map_or"), "std::option::Option::<T>::map": ("opt", "map"),
                "std::option::Option::<T>::and_then": ("opt", "and_then"), "std::option::Option::<T>::unwrap_or_else": ("opt", "unwrap_or_else"),
                "std::result::Result::<T, E>::map_err": ("res", "map_err"), "std::result::Result::<T, E>::map": ("res", "map"),
                "std::option::Option::<T>::is_some_and": ("opt", "is_some_and"), "std::option::Option::<T>::is_none_or": ("opt", "is_none_or"),
                "std::result::Result::<T, E>::is_ok_and": ("res", "is_ok_and"), "std::result::Result::<T, E>::is_err_and": ("res", "is_err_and"),
                "std::option::Option::<T>::or_else": ("opt", "or_else"), "std::option::Option::<T>::map_or_else": ("opt", "map_or_else"),
                "std::result::Result::<T, E>::unwrap_or_else": ("res", "unwrap_or_else_r"), "std::result::Result::<T, E>::and_then": ("res", "and_then_r"),
                "std::option::Option::<T>::filter": ("opt", "filter")}
        if p in COMB and self.closure_of(st, args[-1]) is not None and self.closure_of(st, args[-1])[1] in self.F.fns:
            return self.combinator(st, stack, fr, COMB[p], args, t, site, info, path)
        if p in COMB and self.fn_item_of(st, args[-1]) is not None:
            return self.combinator(st, stack, fr, COMB[p], args, t, site, info, path)
        if p in ("std::option::Option::<T>::map", "std::result::Result::<T, E>::map") and len(args) == 2 and args[1][0] == "fn":
            # x.map(f) with a function item: the variant is the receiver's, the payload is f(payload)
            adt = "std::option::Option" if "option" in p else "std::result::Result"
            good, bad = ("Some", "None") if adt.endswith("Option") else ("Ok", "Err")
            recv = args[0]
            fpath = args[1][1]
            if recv[0] == "agg":
                if recv[2] == good:
                    return ret(AGG(adt, good, (SYM(self.cap(("call", fpath, (recv[3][0],)))),)))
                return ret(recv)
            if recv[0] == "sym":
                dt = ("discr", recv[1], adt)
                alts = []
                for variant in (good, bad):
                    s2 = st.clone()
                    if not self.constrain(s2, dt, "eq", self.variant_discr(adt, variant)):
                        continue
                    k2 = self.clone_stack(stack)
                    pay = SYM(self.cap(("field", recv[1], 0)))
                    if variant == good:
                        val = AGG(adt, good, (SYM(self.cap(("call", fpath, (pay,)))),))
                    else:
                        val = AGG(adt, bad, () if adt.endswith("Option") else (pay,))
                    self.write_place(s2, k2[-1], dest, val, site)
                    if target is None:
                        continue
                    k2[-1].bb = target
                    alts.append((s2, k2))
                if not alts:
                    self.finish_path(st, None, "diverge")
                    return "stop"
                return ("fork", alts)
        # ---- higher-order calls with a local closure argument
        clos = [(i, self.closure_of(st, a)) for i, a in enumerate(args)]
        clos = [(i, c) for i, c in clos if c is not None and c[1] in self.F.fns]
        if clos and path in self.F.fns and self.inline_pred(self, self.F.fns[path], info):
            return None        # an in-crate function taking a closure that is going to be inlined: the closure travels as an argument
        if clos:
            return self.higher_order(st, stack, fr, info, path, args, clos, t, site)
        return None

    def combinator(self, st, stack, fr, kind, args, t, site, info, path):
        """Option::{map, map_or, and_then, unwrap_or_else}, Result::{map, map_err} with a local closure."""
        fam, name = kind
        dest, target = t["dest"], t["t"]
        recv = args[0]
        clo_arg = args[-1]
        clo = self.closure_of(st, clo_arg)
        fnitem = None if clo is not None else self.fn_item_of(st, clo_arg)
        callee = self.F.fns[clo[1]] if clo is not None else self.F.fns.get(fnitem)
        OPT, RES = "std::option::Option", "std::result::Result"
        adt = OPT if fam == "opt" else RES
        # which variant runs the closure, and what the other variant yields
        run_on = {"map_or": "Some", "map": "Some" if fam == "opt" else "Ok", "and_then": "Some", "unwrap_or_else": "None", "map_err": "Err",
                  "is_some_and": "Some", "is_none_or": "Some", "is_ok_and": "Ok", "is_err_and": "Err", "or_else": "None",
                  "unwrap_or_else_r": "Err", "and_then_r": "Ok", "filter": "Some"}.get(name)
        if name == "map_or_else":
            # opt.map_or_else(default, f): the last argument maps the payload, the one before it produces the value for None
            if len(args) != 3:
                return None
            dflt = args[1]
            d_clo = self.closure_of(st, dflt)
            d_fn = None if d_clo is not None else self.fn_item_of(st, dflt)
            if d_clo is None and d_fn is None:
                return None
            if d_clo is not None and d_clo[1] not in self.F.fns:
                return None
            run_on = "Some"

        def passthrough(v, variant):
            if name == "map_or":
                return args[1]
            if name in ("is_some_and", "is_ok_and", "is_err_and"):
                return C(0, "bool")
            if name == "is_none_or":
                return C(1, "bool")
            if name == "unwrap_or_else_r":
                return v[3][0] if v[0] == "agg" else SYM(self.cap(("field", v[1], 0)))
            if name == "unwrap_or_else":
                return v[3][0] if v[0] == "agg" else SYM(self.cap(("field", v[1], 0)))
            if v[0] == "agg":
                return v
            inner = () if variant == "None" else (SYM(self.cap(("field", v[1], 0))),)
            return AGG(adt, variant, inner)

        def wrap(retv):
            if name in ("map_or", "and_then", "unwrap_or_else", "is_some_and", "is_none_or", "is_ok_and", "is_err_and", "or_else",
                        "unwrap_or_else_r", "and_then_r", "map_or_else"):
                return retv
            if name == "map":
                return AGG(adt, "Some" if fam == "opt" else "Ok", (retv,))
            return AGG(RES, "Err", (retv,))
        variants = ["None", "Some"] if fam == "opt" else ["Ok", "Err"]
        if recv[0] == "agg":
            cases = [recv[2]]
        elif recv[0] == "sym":
            cases = variants
        else:
            return None
        alts = []
        for variant in cases:
            s2 = st.clone() if len(cases) > 1 else st
            k2 = self.clone_stack(stack) if len(cases) > 1 else stack
            if recv[0] == "sym" and not self.constrain(s2, ("discr", recv[1], adt), "eq", self.variant_discr(adt, variant)):
                continue
            if variant != run_on and name == "map_or_else":
                # run the default producer
                def cont_d(st3, stack3, retv, dest=dest, target=target):
                    ex_.write_place(st3, stack3[-1], dest, retv, site)
                    if target is None:
                        ex_.finish_path(st3, None, "diverge")
                        return "stop"
                    stack3[-1].bb = target
                    return None
                ex_ = self
                if d_clo is not None:
                    self.enter(s2, k2, k2[-1], self.F.fns[d_clo[1]], [dflt], None, None, cont_d, closure=True)
                    alts.append((s2, k2))
                    continue
                dcallee = self.F.fns.get(d_fn)
                dinfo = {"path": d_fn, "name": d_fn.split("::")[-1], "targs": list(dflt[2]) if (dflt[0] == "fn" and len(dflt) > 2 and dflt[2]) else [],
                         "local": dcallee is not None, "impl_self": (dcallee or {}).get("impl_self", "")}
                if dcallee is not None and self.inline_pred(self, dcallee, dinfo) and len(k2) < 12:
                    self.enter(s2, k2, k2[-1], dcallee, [], None, None, cont_d)
                    alts.append((s2, k2))
                    continue
                outs = self.std_fn_item_values(s2, k2, dinfo, [], site) if dcallee is None else None
                if outs is not None:
                    for (s4, k4, v4) in outs:
                        self.write_place(s4, k4[-1], dest, v4, site)
                        if target is None:
                            continue
                        k4[-1].bb = target
                        alts.append((s4, k4))
                    continue
                rv = SYM(self.cap(("call", d_fn, ())))
                s2.effects.append(("call", d_fn, (), (), rv, site))
                self.write_place(s2, k2[-1], dest, rv, site)
                if target is None:
                    continue
                k2[-1].bb = target
                alts.append((s2, k2))
                continue
            if variant != run_on:
                self.write_place(s2, k2[-1], dest, passthrough(recv, variant), site)
                if target is None:
                    continue
                k2[-1].bb = target
                alts.append((s2, k2))
                continue
            payload = [] if variant == "None" else [recv[3][0] if recv[0] == "agg" else SYM(self.cap(("field", recv[1], 0)))]
            ex = self
            filt_payload = list(payload)
            if name == "filter":
                # the predicate sees `&payload`
                self._cs_n = getattr(self, "_cs_n", 0) + 1
                tmp = ("CS", "tmp", self._cs_n)
                s2.heap[(tmp, ())] = payload[0]
                payload = [("ref", tmp, ())]

            def cont(st3, stack3, retv, dest=dest, target=target, payload=payload):
                fr3 = stack3[-1]
                if name == "filter":
                    # the predicate's verdict selects Some(payload) / None
                    def fin(val):
                        def go(s5, k5):
                            ex.write_place(s5, k5[-1], dest, val, site)
                            if target is None:
                                ex.finish_path(s5, None, "diverge")
                                return "stop"
                            k5[-1].bb = target
                            return None
                        return go
                    return ex.cseq_branch(st3, stack3, retv, fin(AGG(OPT, "Some", (filt_payload[0],))), fin(AGG(OPT, "None", ())))
                ex.write_place(st3, fr3, dest, wrap(retv), site)
                if target is None:
                    ex.finish_path(st3, None, "diverge")
                    return "stop"
                fr3.bb = target
                return None
            if fnitem is not None:
                # a function item in the closure's place (`opt.map_or(0, MqttString::size)`): the same as calling it on the payload
                finfo = {"path": fnitem, "name": fnitem.split("::")[-1], "targs": [], "local": callee is not None,
                         "impl_self": (callee or {}).get("impl_self", "")}
                if callee is not None and self.inline_pred(self, callee, finfo) and len(k2) < 12:
                    self.enter(s2, k2, k2[-1], callee, payload, None, None, cont)
                    alts.append((s2, k2))
                    continue
                if callee is None:
                    # a std function in the closure's place (`x.and_then(Option::as_ref)`): its own model decides the value
                    outs = self.std_fn_item_values(s2, k2, finfo, payload, site)
                    if outs is not None:
                        for (s4, k4, v4) in outs:
                            self.write_place(s4, k4[-1], dest, wrap(v4), site)
                            if target is None:
                                continue
                            k4[-1].bb = target
                            alts.append((s4, k4))
                        continue
                argterms = tuple(self.deref(s2, a) if a[0] == "ref" else a for a in payload)
                rv = SYM(self.cap(("call", fnitem, argterms)))
                s2.effects.append(("call", fnitem, tuple(payload), argterms, rv, site))
                self.write_place(s2, k2[-1], dest, wrap(rv), site)
                if target is None:
                    continue
                k2[-1].bb = target
                alts.append((s2, k2))
                continue
            self.enter(s2, k2, k2[-1], callee, [clo_arg] + payload, None, None, cont, closure=True)
            alts.append((s2, k2))
        if not alts:
            self.finish_path(st, None, "diverge")
            return "stop"
        if len(alts) == 1 and alts[0][0] is st:
            return "entered" if alts[0][1][-1] is not fr else "ok"
        return ("fork", alts)

    def higher_order(self, st, stack, fr, info, path, args, clos, t, site):
        """f(.., closure, ..): run the closure body 0..closure_k times, then treat the call as opaque."""
        dest, target = t["dest"], t["t"]
        i, clo = clos[0]
        callee = self.F.fns[clo[1]]
        # what the elements handed to the closure are drawn from: the first non-closure argument (the iterator / collection)
        src_val = None
        for j_, a_ in enumerate(args):
            if j_ != i:
                src_val = self.deref(st, a_) if a_[0] == "ref" else a_
                break
        alts = []
        # `iter.fold(init, |acc, x| ..)` over a source whose type bounds its length (the elements of an ArrayVec<_, N>): unrolled
        # exactly - the accumulator is the initial value, then the closure's own previous result, the fold's value is the
        # accumulator after 0 .. N elements.  (Over a source of unknown length the accumulator stays an unknown, below.)
        if path.endswith("::Iterator>::fold") or path.endswith("::Iterator::fold"):
            ncap = self.static_capacity(src_val) if (len(args) == 3 and i == 2 and callee["argc"] == 3) else None
            if ncap is not None and ncap <= 8:
                ex = self

                def fold_cont(n):
                    def cont(st2, stack2, retv):
                        st2.effects.append(("closure_ret", clo[1], retv, n))
                        if n < ncap:
                            s3 = st2.clone()
                            k3 = ex.clone_stack(stack2)
                            ex.start_closure(s3, k3, k3[-1], callee, clo, args[i], dest, target, fold_cont(n + 1), n + 1, source=src_val, acc=retv)
                            ex.work.append((s3, k3))
                        ex.write_place(st2, stack2[-1], dest, retv, site)
                        if target is None:
                            ex.finish_path(st2, None, "diverge")
                            return "stop"
                        stack2[-1].bb = target
                        return None
                    return cont
                s0 = st.clone()
                k0 = self.clone_stack(stack)
                self.write_place(s0, k0[-1], dest, args[1], site)
                if target is not None:
                    k0[-1].bb = target
                    alts.append((s0, k0))
                if ncap >= 1:
                    s1 = st.clone()
                    k1 = self.clone_stack(stack)
                    self.start_closure(s1, k1, k1[-1], callee, clo, args[i], dest, target, fold_cont(1), 1, source=src_val, acc=args[1])
                    alts.append((s1, k1))
                return ("fork", alts)
        # 0 times
        s0 = st.clone()
        k0 = self.clone_stack(stack)
        self.opaque_call(s0, k0[-1], path, args, dest, site, info)
        if target is not None:
            k0[-1].bb = target
            alts.append((s0, k0))
        # 1..k times
        ex = self

        def make_cont(remaining, iteration):
            def cont(st2, stack2, retv):
                fr2 = stack2[-1]
                st2.effects.append(("closure_ret", clo[1], retv, iteration))
                if remaining > 0:
                    # fork: stop here or run again
                    s3 = st2.clone()
                    k3 = ex.clone_stack(stack2)
                    ex.start_closure(s3, k3, k3[-1], callee, clo, args[i], dest, target, make_cont(remaining - 1, iteration + 1), iteration + 1, source=src_val)
                    ex.work.append((s3, k3))
                ex.opaque_call(st2, fr2, path, args, dest, site, info)
                if target is None:
                    ex.finish_path(st2, None, "diverge")
                    return "stop"
                fr2.bb = target
                return None
            return cont
        if self.closure_k >= 1:
            s1 = st.clone()
            k1 = self.clone_stack(stack)
            self.start_closure(s1, k1, k1[-1], callee, clo, args[i], dest, target, make_cont(self.closure_k - 1, 1), 1, source=src_val)
            alts.append((s1, k1))
        if not alts:
            self.finish_path(st, None, "diverge")
            return "stop"
        return ("fork", alts)

    def static_capacity(self, src):
        """An upper bound on the number of elements an iterator yields that its source's TYPE guarantees: the iterator is
        `.iter()` (possibly through deref / as_slice / copied / cloned) of a struct field declared `ArrayVec<_, N>`."""
        s = src
        for _ in range(8):
            if s is None:
                return None
            for _i in range(4):
                if len(s) == 2 and s[0] == "#" and isinstance(s[1], int):
                    s = self.interned_rev.get(s[1], s)
                elif s[0] == "sym" and isinstance(s[1], tuple) and len(s[1]) == 2 and s[1][0] == "#":
                    s = ("sym", self.interned_rev.get(s[1][1], s[1]))
                else:
                    break
            if s[0] == "sym" and isinstance(s[1], tuple) and s[1][0] == "call" and s[1][2] and \
                    s[1][1].split("::")[-1] in ("iter", "deref", "as_slice", "copied", "cloned", "into_iter", "by_ref", "as_ref"):
                s = s[1][2][0]
                continue
            if s[0] == "sym" and isinstance(s[1], tuple) and s[1][0] == "init" and isinstance(s[1][1], tuple) and s[1][1] and s[1][1][0] == "D" and not s[1][2]:
                s = ("sym", s[1][1][1])
                continue
            break
        if s[0] == "vec" and all(isinstance(it, tuple) and it and it[0] in ("c", "sym") for it in s[1]):
            return len(s[1])          # a byte vector built on the path, element by element: its length is known
        if not (s[0] == "sym" and isinstance(s[1], tuple) and s[1][0] == "init" and s[1][2] and s[1][2][-1][0] == "f"):
            return None
        _, fi, fname = s[1][2][-1][:3]
        caps = set()
        for adt in self.F.adts.values():
            for v in adt.get("variants", []):
                for f in v.get("fields", []):
                    if f.get("name") == fname and f.get("i") == fi:
                        m = re.match(r"^arrayvec::ArrayVec<.*, (\d+)(usize)?>$", f.get("ty", ""))
                        caps.add(int(m.group(1)) if m else None)
        if len(caps) == 1 and None not in caps:
            return caps.pop()
        return None

    def start_closure(self, st, stack, fr, callee, clo, cloarg, dest, target, cont, iteration, source=None, acc=None):
        # closure parameters are unknown elements supplied by the higher-order function; they remember what they were drawn
        # from (the receiver of the higher-order call, e.g. `set.drain()`), so that rules can tell whose elements they are
        n = callee["argc"]
        cargs = [cloarg]
        src = self.intern(source) if (source is not None and term_depth(source) > 3) else source
        for j in range(2, n + 1):
            ty = callee["locals"][j]
            if acc is not None and j == 2:
                cargs.append(acc)
                continue
            elem = SYM(("elem", clo[1], j, iteration, src))
            if ty.startswith("&"):
                obj = ("elem", clo[1], j, iteration, src)
                cargs.append(("ref", obj, ()))
            else:
                cargs.append(elem)
        st.effects.append(("closure_iter", clo[1], iteration))
        self.enter(st, stack, fr, callee, cargs, None, None, cont, closure=True)


EXT_INDEX_RE = re.compile(r"(::index::<impl std::ops::Index(Mut)?<I> for \[T\]>::index$)|(impl std::ops::Index<I> for \[T; N\]>::index$)")
PRIM_OP_RE = re.compile(r"^<&?(?:'\w+ )?(u8|u16|u32|u64|u128|usize|i8|i16|i32|i64|i128|isize) as std::ops::(?:Add|Sub|Mul)(?:Assign)?<&?(?:'\w+ )?\1>>::(add|sub|mul|add_assign|sub_assign|mul_assign)$")
SNAP_RE = re.compile(r"(::index(_mut)?$)|(::copy_from_slice$)|(ArcPayload::new$)|(::split_at(_mut)?$)|(Vec::<T, A>::(remove|swap_remove|insert|split_off)$)|(::clone_from_slice$)|(^std::ops::(Add::add|Sub::sub|Mul::mul)$)|(^core::panicking::)|(^std::panicking::)")


def int_range(ty):
    """Value range of a primitive integer type name (unknown types: unbounded)."""
    m = re.match(r"^(u|i)(8|16|32|64|128|size)$", ty or "")
    if not m:
        return (-(1 << 200), 1 << 200)
    bits = 64 if m.group(2) == "size" else int(m.group(2))
    if m.group(1) == "u":
        return (0, (1 << bits) - 1)
    return (-(1 << (bits - 1)), (1 << (bits - 1)) - 1)


def tracked_elem(ty):
    """Element types whose vectors are tracked as words: events, bytes, IoSlices."""
    if ty.startswith("["):
        ty = ty[1:].rsplit(";", 1)[0].strip()
    return "GenericEvent" in ty or ty == "u8" or ty.startswith("std::io::IoSlice<")


def cseq_elem(ty):
    """Element types whose vectors are kept as concrete lists when built on the path: packet parts (subscription entries,
    topic filters ...) - not properties, whose lists stay symbolic values handed to their own parse / size functions."""
    if ty.startswith("mqtt::connection::core::"):
        return True          # private helper types of the connection module (a list of planned steps built, then executed)
    return ty.startswith("mqtt::packet::") and not ty.endswith("property::Property") and "GenericEvent" not in ty


def sig_mut_indices(t):
    """Indices of `&mut` parameters from the FnDef type string of a call terminator."""
    f = t["func"]
    if "const" not in f:
        return ()
    ty = f["const"].get("ty", "")
    # "for<'a> fn(&'a mut X, Y) {path}"
    i = ty.find("fn(")
    if i < 0:
        return ()
    depth = 0
    j = i + 3
    start = j
    parts = []
    while j < len(ty):
        ch = ty[j]
        if ch in "(<[":
            depth += 1
        elif ch in ")>]":
            if depth == 0:
                parts.append(ty[start:j])
                break
            depth -= 1
        elif ch == "," and depth == 0:
            parts.append(ty[start:j])
            start = j + 1
        j += 1
    out = []
    for k, p in enumerate(parts):
        p = p.strip()
        if re.match(r"^&('\w+ )?mut ", p):
            out.append(k)
    return tuple(out)


def default_inline(ex, callee, info):
    """Inline methods of GenericConnection (the analysed struct) and closures defined in them."""
    s = callee.get("impl_self", "")
    if s.startswith("mqtt::connection::core::GenericConnection<"):
        return True
    if callee.get("kind") == "Closure":
        return True
    # packet builders (derive_builder structs + hand-written build/validate): inlined so that
    # `X::builder().field(..).build()` chains are decided by the same analysis
    if BUILDER_RE.search(s):
        return True
    if callee.get("name") == "builder" and callee["path"].startswith("mqtt::packet::"):
        return True
    if callee.get("name") == "from" and "mqtt::result_code" in callee["path"]:
        return True
    if callee.get("name") == "try_from" and callee.get("impl_self", "").startswith("mqtt::packet::enum_store_packet::GenericStorePacket"):
        return True      # Publish/Pubrel -> stored packet: decided by the same qos() atom the handler tested
    if small_private_helper(callee):
        return True      # small private helper of a packet module (e.g. a predicate factored out of build()/parse())
    if callee.get("kind") == "AssocFn" and not callee.get("pub") and (callee.get("impl_self") or "").startswith("mqtt::connection::core::") \
            and len(callee["blocks"]) <= 160:
        return True      # methods of private helper types of the connection module (a decision enum, a grouped-fields struct)
    if callee.get("kind") == "AssocFn" and not callee.get("pub") and not callee.get("impl_trait") and len(callee["blocks"]) <= 60 \
            and (callee.get("impl_self") or "").startswith(("mqtt::common::", "mqtt::connection::")):
        return True      # private methods of the supporting structures: part of the public method that calls them
    if callee.get("name") in ("try_from", "from", "try_from_primitive") and callee.get("impl_trait") \
            and callee["path"].lstrip("<").startswith("mqtt::packet::packet_type::") and not has_back_edge(callee) and len(callee["blocks"]) <= 120:
        return True      # conversion table u8 <-> PacketType (hand-written or derived): the case split a `match` on the raw value makes
    return False


def struct_eq(a, b):
    """Derived equality of two fully concrete values (enum variants / constants, nested): True / False, None if symbolic."""
    if a[0] == "c" and b[0] == "c":
        return a[1] == b[1]
    if a[0] == "agg" and b[0] == "agg" and a[1] == b[1]:
        if a[2] != b[2]:
            return False
        if len(a[3]) != len(b[3]):
            return None
        res = True
        for x, y in zip(a[3], b[3]):
            r = struct_eq(x, y)
            if r is False:
                return False
            if r is None:
                res = None
        return res
    if a[0] == "arr" and b[0] == "arr" and len(a[1]) == len(b[1]):
        res = True
        for x, y in zip(a[1], b[1]):
            r = struct_eq(x, y)
            if r is False:
                return False
            if r is None:
                res = None
        return res
    return None


def takes_property_list(callee):
    import facts
    return facts.takes_property_list(callee)


def small_private_helper(callee, props_ok=False):
    """A small private function of the packet layer (a predicate / cursor step / length formula factored out of
    build(), parse() or a serialiser).  Functions that take a property list (validators and their helpers: they iterate)
    are followed only on request (props_ok) - the rules that evaluate validators do so on concrete lists."""
    return callee.get("kind") in ("Fn", "AssocFn") and not callee.get("pub") and callee["path"].lstrip("<").startswith("mqtt::packet::") \
        and len(callee["blocks"]) <= 120 and "Builder" not in (callee.get("impl_self") or "") \
        and (props_ok or not (callee.get("prop_validator") or (takes_property_list(callee) and has_back_edge(callee))))


def returns_mqtt_result(callee):
    rt = callee["locals"][0].replace(" ", "")
    return rt.startswith("std::result::Result<") and rt.endswith(",mqtt::result_code::MqttError>")


def pure_match_fn(callee, F=None, depth=0):
    """A body made of switches, assignments and returns only - no asserts, no loops, and no calls other than to
    in-crate functions of the same kind (a lookup table, possibly delegating per variant to constant functions)."""
    c = callee.get("_pure_match")
    if c is None:
        c = not has_back_edge(callee)
        for b in callee["blocks"]:
            if not c or b.get("cleanup"):
                continue
            t = b["term"]
            if t["k"] in ("switch", "goto", "return", "unreachable"):
                continue
            if t["k"] == "call" and F is not None and depth < 2 and "fn" in t["func"].get("const", {}):
                fi = t["func"]["const"]["fn"]
                g = F.fns.get((fi.get("res") or {}).get("path", fi["path"]))
                if g is not None and g is not callee and pure_match_fn(g, F, depth + 1):
                    continue
            c = False
        callee["_pure_match"] = c
    return c


def constant_fn(callee):
    """A straight-line body that never looks at its arguments (`fn id(&self) -> PropertyId { PropertyId::X }`)."""
    c = callee.get("_constant_fn")
    if c is None:
        c = len(callee["blocks"]) <= 3 and all(b.get("cleanup") or b["term"]["k"] in ("goto", "return") for b in callee["blocks"])
        if c:
            argc = callee.get("argc", 0)

            def uses_arg(x):
                if isinstance(x, dict):
                    if isinstance(x.get("l"), int) and 1 <= x["l"] <= argc and "p" in x:
                        return True
                    return any(uses_arg(v) for v in x.values())
                if isinstance(x, list):
                    return any(uses_arg(v) for v in x)
                return False
            c = not uses_arg([b for b in callee["blocks"] if not b.get("cleanup")])
        callee["_constant_fn"] = c
    return c


def has_back_edge(callee):
    """Does the body contain a loop (a cycle in its control-flow graph, cleanup blocks aside)?"""
    c = callee.get("_has_loop")
    if c is not None:
        return c
    succ = {}
    for b in callee["blocks"]:
        if b.get("cleanup"):
            continue
        t = b["term"]
        tg = []
        v = t.get("t")
        if isinstance(v, int):
            tg.append(v)
        if t["k"] == "switch":
            for x in t.get("targets", []):
                tg.append(x[1] if isinstance(x, (list, tuple)) else x)
            if isinstance(t.get("otherwise"), int):
                tg.append(t["otherwise"])
        succ[b["i"]] = [x for x in tg if isinstance(x, int)]
    color = {}
    res = False
    stack = [(0, iter(succ.get(0, [])))]
    color[0] = 1
    while stack and not res:
        n, it = stack[-1]
        for m in it:
            if color.get(m) == 1:
                res = True
                break
            if m not in color and m in succ:
                color[m] = 1
                stack.append((m, iter(succ[m])))
                break
        else:
            color[n] = 2
            stack.pop()
    callee["_has_loop"] = res
    return res


BUILDER_RE = re.compile(r"^mqtt::packet::.*Builder(<.*>)?$")
