"""A7 - relational must-facts: linear inequalities with integer coefficients over opaque unsigned terms,
collected from a path's constraints, and a small sound entailment test (non-negative combination of at most
three facts plus sign facts).  No LP, no solver.

A linear form is (coeffs: dict atom -> int, const: int) meaning  sum(coef*atom) + const.
A fact / query is a linear form L with the reading  L <= 0.
"""
import itertools
import re

_TO_BYTES = re.compile(r"^std::num::<impl [ui](8|16|32|64|128|size)>::to_(?:be|le|ne)_bytes$")


def lin_add(a, b, kb=1):
    c = dict(a[0])
    for k, v in b[0].items():
        c[k] = c.get(k, 0) + kb * v
        if c[k] == 0:
            del c[k]
    return (c, a[1] + kb * b[1])


def lin_scale(a, k):
    return ({x: v * k for x, v in a[0].items() if v * k != 0}, a[1] * k)


def const(n):
    return ({}, n)


def atom(t):
    return ({t: 1}, 0)


class Lin:
    def __init__(self, expand=None, len_rewrite=True):
        self.expand = expand or (lambda t: t)

    def of_value(self, v):
        """Linear form of an abstract value."""
        v = self.expand(v)
        if v[0] == "c" and isinstance(v[1], int):
            return const(v[1])
        if v[0] == "sym":
            return self.of_term(v[1])
        return atom(("val", v))

    def of_term(self, t):
        t = self.expand(t)
        k = t[0]
        if k == "bin":
            op = t[1].replace("WithOverflow", "").replace("Unchecked", "")
            a = self.of_value(t[2])
            b = self.of_value(t[3])
            if op == "Add":
                return lin_add(a, b)
            if op == "Sub":
                return lin_add(a, b, -1)
            if op == "Mul":
                if not a[0]:
                    return lin_scale(b, a[1])
                if not b[0]:
                    return lin_scale(a, b[1])
            return atom(t)
        if k == "cast":
            # integer widening / usize<->u64 casts preserve the value for the unsigned lengths handled here
            ty = t[2]
            if ty in ("usize", "u64", "u32", "u128"):
                return self.of_value(t[1])
            return atom(t)
        if k == "into" and len(t) > 2 and t[2] in ("usize", "u64", "u32", "u128", "u16"):
            return self.of_value(t[1])       # lossless widening (From<u8/u16/u32/bool>)
        if k == "len":
            return self.len_of(t[1])
        if k == "call" and t[1].endswith("::len") and len(t[2]) == 1:
            return self.len_of(t[2][0])
        if k == "field" and t[2] == 0 and isinstance(t[1], tuple) and t[1] and t[1][0] == "bin":
            # (.0 of a checked arithmetic tuple)
            return self.of_term(t[1])
        return atom(t)

    def len_of(self, v):
        """len(x) with the slicing algebra: len(x[a..]) = len(x)-a, len(x[a..b]) = b-a, len(x[..b]) = b."""
        v = self.expand(v)
        t = v[1] if v[0] == "sym" else None
        if v[0] == "ref" and v[1] and v[1][0] == "D" and not v[2]:
            return self.len_of(("sym", v[1][1]))     # reference to what a symbolic pointer points to: that value
        if v[0] == "ref" and not v[2] and isinstance(v[1], tuple) and v[1] and v[1][0] == "elem" and len(v[1]) > 4 and v[1][4] is not None:
            # an element handed to a closure by `x.windows(n)` / `x.chunks_exact(n)`: a slice of exactly n items
            src = self.expand(v[1][4])
            if isinstance(src, tuple) and src and src[0] == "sym" and src[1][0] == "call" and len(src[1][2]) == 2 \
                    and src[1][1].split("::")[-1] in ("windows", "chunks_exact"):
                nn = self.expand(src[1][2][1])
                if nn[0] == "c" and isinstance(nn[1], int):
                    return const(nn[1])
        if v[0] == "ref":
            # a reference to a location: its pointee's entry value (slices handed to decoders are immutable)
            return atom(("len", ("sym", ("init", v[1], v[2]))))
        if t and t[0] == "call" and (t[1].endswith("::index") or t[1].endswith("::index_mut")) and len(t[2]) == 2:
            base, rng = t[2]
            rng = self.expand(rng)
            if rng[0] == "agg":
                if rng[2] == "RangeFrom":
                    st_ = self.expand(rng[3][0])
                    if st_[0] == "sym" and isinstance(st_[1], tuple) and st_[1][0] == "call" and st_[1][1].split("::")[-1] == "min":
                        # x[min(len(x), a)..]: len(x) - min(len(x), a) == len(x).saturating_sub(a)
                        margs = [a_ for a_ in st_[1][2] if not (isinstance(a_, tuple) and a_ and a_[0] == "targs")]
                        bl = self.len_of(base)
                        if len(margs) == 2 and len(bl[0]) == 1 and bl[1] == 0 and list(bl[0].values()) == [1]:
                            for (m0, m1) in ((margs[0], margs[1]), (margs[1], margs[0])):
                                if self.of_value(m0) == bl:
                                    return atom(("call", "usize::saturating_sub", (("sym", list(bl[0])[0]), m1)))
                    return lin_add(self.len_of(base), self.of_value(rng[3][0]), -1)
                if rng[2] == "Range":
                    return lin_add(self.of_value(rng[3][1]), self.of_value(rng[3][0]), -1)
                if rng[2] == "RangeTo":
                    return self.of_value(rng[3][0])
                if rng[2] == "RangeFull":
                    return self.len_of(base)
                if rng[2] == "RangeToInclusive":
                    return lin_add(self.of_value(rng[3][0]), const(1))
            if "RangeFull" in repr(rng)[:80] and rng[0] in ("sym", "unit", "c"):
                return self.len_of(base)
        if v[0] == "arr":
            return const(len(v[1]))
        if t and t[0] == "call":
            mb = _TO_BYTES.match(t[1])
            if mb:
                return const({"size": 8}.get(mb.group(1), 0) or int(mb.group(1)) // 8)     # uN::to_be_bytes(): [u8; N/8]
        if v[0] == "vec":
            # a byte vector built on the path: appended slices contribute their lengths, pushed bytes one each
            tot = const(0)
            for it in v[1]:
                if isinstance(it, tuple) and it and it[0] == "slice":
                    src = it[1]
                    if isinstance(src, tuple) and src and src[0] == "loc":
                        tot = lin_add(tot, self.len_of(("sym", src[1][1]) if (src[1][0] == "D" and not src[2]) else ("ref", src[1], src[2])))
                    else:
                        tot = lin_add(tot, self.len_of(src))
                elif isinstance(it, tuple) and it and it[0] in ("c", "sym"):
                    tot = lin_add(tot, const(1))
                else:
                    return atom(("len", v))
            return tot
        if t and t[0] == "mut" and t[1][0].endswith("Vec::<T, A>::resize") and len(t) > 5 and t[5]:
            return self.of_value(t[5][0])        # after v.resize(n, x): len(v) == n
        if t and t[0] == "mut" and (t[1][0].endswith("::index_mut") or t[1][0].endswith("::read") or t[1][0].endswith("::read_exact")
                                    or t[1][0].endswith("::copy_from_slice") or t[1][0].endswith("::move_index")
                                    or t[1][0].endswith("::swap_indices") or t[1][0].endswith("::sort") or t[1][0].endswith("::reverse")):
            return self.len_of(t[3])             # mutation through a borrowed slice keeps its length
        if t and t[0] == "call" and len(t[2]) >= 1 and (t[1].endswith("::Deref>::deref") or t[1].endswith("AsRef::as_ref") or t[1].endswith("::as_slice")
                                                    or t[1].endswith("AsRef<T>>::as_ref") or t[1].endswith("::as_bytes")):
            # smart pointers / containers deref to the slice they own: same length
            return self.len_of(t[2][0])
        # a vector collected from a length-preserving iterator chain over x (iter / map / copied / cloned / enumerate) has
        # len(x) elements - also when collected into Result<Vec<_>, _> / Option<Vec<_>> and unwrapped (all elements succeeded)
        tc = t
        if tc and tc[0] == "field" and tc[2] == 0 and isinstance(tc[1], tuple):
            inner = self.expand(tc[1])
            if isinstance(inner, tuple) and inner and inner[0] == "field" and inner[2] == 0:
                inner = self.expand(inner[1])          # Try::branch payload of the Ok variant
            tc = inner
        if tc and tc[0] == "call" and tc[1].split("::")[-1] in ("collect", "from_iter") and tc[2]:
            src = self.expand(tc[2][0])
            okc = True
            skips = []
            for _ in range(12):
                if isinstance(src, tuple) and src and src[0] == "liter" and all(ad[0] == "map" for ad in src[2]):
                    src = self.expand(src[1])          # a lazy chain of `map`s over an iterator: as many elements as the iterator
                    continue
                if not (isinstance(src, tuple) and src and src[0] == "sym" and src[1][0] == "call" and src[1][2]):
                    break
                nm = src[1][1].split("::")[-1]
                if nm in ("map", "copied", "cloned", "enumerate", "into_iter", "by_ref"):
                    src = self.expand(src[1][2][0])
                    continue
                if nm == "skip" and len(src[1][2]) == 2:
                    skips.append(src[1][2][1])
                    src = self.expand(src[1][2][0])
                    continue
                if nm in ("iter", "iter_mut"):
                    base_len = self.len_of(self.expand(src[1][2][0]))
                    if not skips:
                        return base_len
                    if len(skips) == 1 and len(base_len[0]) == 1 and base_len[1] == 0 and list(base_len[0].values()) == [1]:
                        # x.iter().skip(n): len(x).saturating_sub(n) elements (aux_facts relates the result to len(x) and n)
                        return atom(("call", "usize::saturating_sub", (("sym", list(base_len[0])[0]), skips[0])))
                    okc = False
                    break
                okc = False
                break
        if t and t[0] == "deref":
            return self.len_of(("sym", t[1]))
        if t and t[0] == "init" and t[1][0] == "D":
            return self.len_of(("sym", t[1][1]))
        return atom(("len", v))

    # ------------------------------------------------------------ facts
    def facts_of_path(self, p):
        return self.facts_of_cons(p.cons)

    def facts_of_cons(self, cons):
        out = []
        for k, c in cons.items():
            k = self.expand(k)
            if k[0] == "cmp" and c[0] == "eq":
                a = self.of_value(k[2])
                b = self.of_value(k[3])
                if k[1] == "Lt":
                    if c[1] == 1:
                        out.append(lin_add(lin_add(a, b, -1), const(1)))      # a < b  ->  a - b + 1 <= 0
                    else:
                        out.append(lin_add(b, a, -1))                          # !(a < b) -> b - a <= 0
                elif k[1] == "Eq" and c[1] == 1:
                    out.append(lin_add(a, b, -1))
                    out.append(lin_add(b, a, -1))
                elif k[1] == "Eq" and c[1] == 0:
                    # x != 0 for an unsigned x  ->  1 - x <= 0
                    if not a[0] and a[1] == 0:
                        out.append(lin_add(const(1), b, -1))
                    elif not b[0] and b[1] == 0:
                        out.append(lin_add(const(1), a, -1))
            elif k[0] == "discr" and c == ("eq", 1) and len(k) > 2 and k[2] == "std::option::Option" and isinstance(k[1], tuple) \
                    and k[1] and k[1][0] == "call" and len(k[1]) > 2 and k[1][2] \
                    and k[1][1].split("::")[-1] in ("get_index_of", "get_full", "first", "last", "get_index"):
                # a look-up that found something: the container is not empty
                out.append(lin_add(const(1), self.len_of(self.expand(k[1][2][0])), -1))
            elif k[0] == "call" and len(k) > 2 and k[2] and k[1].split("::")[-1] == "is_empty" and c[0] == "eq" and c[1] in (0, 1):
                # x.is_empty() decided on the path (any container): len(x) >= 1 / len(x) <= 0
                ln_ = self.len_of(self.expand(k[2][0]))
                out.append(lin_add(const(1), ln_, -1) if c[1] == 0 else ln_)
            elif k[0] in ("call", "field", "init", "arg", "len", "bin", "cast", "index") :
                la = self.of_term(k)
                if c[0] == "eq" and isinstance(c[1], int):
                    out.append(lin_add(la, const(c[1]), -1))
                    out.append(lin_add(const(c[1]), la, -1))
                elif c[0] == "ne" and 0 in c[1]:
                    out.append(lin_add(const(1), la, -1))                      # unsigned and != 0 -> 1 - t <= 0
        return out


def aux_facts(lin, forms):
    """Definitional facts about atoms that are results of min / saturating_sub calls: r <= a, r <= b."""
    out = []
    sat = []
    seen = set()
    work = [a for f in forms for a in f[0]]
    while work:
        a = work.pop()
        if a in seen or not isinstance(a, tuple):
            continue
        seen.add(a)
        if a and a[0] == "field" and a[2] == 0 and isinstance(a[1], tuple) and a[1] and a[1][0] == "call" and len(a[1]) > 2 \
                and a[1][1].split("::")[-1] in ("position", "rposition") and "Iterator" in a[1][1] and a[1][2]:
            # Some(i) = iter.position(..) over the elements of x (no filtering adaptor in between): i < len(x)
            src = lin.expand(a[1][2][0])
            for _ in range(6):
                if not (isinstance(src, tuple) and src and src[0] == "sym" and src[1][0] == "call" and src[1][2]):
                    break
                nm2 = src[1][1].split("::")[-1]
                if nm2 in ("copied", "cloned", "enumerate", "by_ref", "into_iter", "map"):
                    src = lin.expand(src[1][2][0])
                    continue
                if nm2 in ("iter", "iter_mut"):
                    ln = lin.len_of(lin.expand(src[1][2][0]))
                    out.append(lin_add(lin_add(atom(a), ln, -1), const(1)))
                    work.extend(ln[0])
                break
        if a and a[0] == "field" and a[2] == 0 and isinstance(a[1], tuple) and a[1] and a[1][0] == "elem" and len(a[1]) > 4 and a[1][4] is not None:
            # (i, x) handed to a closure by `s.iter().enumerate().<consumer>(..)`: i < len(s)
            src = lin.expand(a[1][4])
            seen_enum = False
            for _ in range(6):
                if not (isinstance(src, tuple) and src and src[0] == "sym" and src[1][0] == "call" and src[1][2]):
                    break
                nm2 = src[1][1].split("::")[-1]
                if nm2 == "enumerate":
                    seen_enum = True
                    src = lin.expand(src[1][2][0])
                    continue
                if nm2 in ("copied", "cloned", "by_ref", "into_iter") and not seen_enum:
                    src = lin.expand(src[1][2][0])       # adaptors below the enumerate keep one element per element
                    continue
                if nm2 in ("copied", "cloned", "by_ref", "into_iter", "map") and seen_enum:
                    src = lin.expand(src[1][2][0])
                    continue
                if nm2 in ("iter", "iter_mut") and seen_enum:
                    ln = lin.len_of(lin.expand(src[1][2][0]))
                    out.append(lin_add(lin_add(atom(a), ln, -1), const(1)))
                    work.extend(ln[0])
                break
        if a and a[0] == "field" and a[2] == 0 and isinstance(a[1], tuple) and a[1] and a[1][0] == "call" and len(a[1]) > 2 \
                and a[1][1].split("::")[-1] in ("get_index_of",) and "IndexMap" in a[1][1] and a[1][2]:
            # Some(i) = map.get_index_of(k): i < len(map)
            ln = lin.len_of(lin.expand(a[1][2][0]))
            out.append(lin_add(lin_add(atom(a), ln, -1), const(1)))
            work.extend(ln[0])
        if a and a[0] == "call" and len(a) > 2:
            nm = a[1].split("::")[-1]
            args = [x for x in a[2] if not (isinstance(x, tuple) and x and x[0] == "targs")]
            if nm == "min" and len(args) == 2:
                for x in args:
                    lx = lin.of_value(x)
                    out.append(lin_add(atom(a), lx, -1))
                    work.extend(lx[0])
            if nm == "saturating_sub" and len(args) == 2:
                lx = lin.of_value(args[0])
                ly = lin.of_value(args[1])
                out.append(lin_add(atom(a), lx, -1))
                work.extend(lx[0])
                sat.append((a, lx, ly))
    # r = x.saturating_sub(y) with r >= 1 known  =>  r == x - y
    base = list(forms) + out
    for (a, lx, ly) in sat:
        if entails(base, lin_add(const(1), atom(a), -1)) or entails(base, lin_add(ly, lx, -1)):
            # (the difference is positive, or the subtrahend is known not to exceed the minuend: no saturation)
            diff = lin_add(lx, ly, -1)
            out.append(lin_add(atom(a), diff, -1))
            out.append(lin_add(diff, atom(a), -1))
    return out


def infeasible(facts, max_k=3, limit=28):
    """Are the facts linearly inconsistent?  Sound: True only when a sum of at most max_k of them has non-negative
    coefficients (atoms are unsigned) and a constant >= 1 - i.e. something >= 1 is required to be <= 0."""
    def absurd(f):
        return f[1] >= 1 and all(v >= 0 for v in f[0].values())
    fs = list(facts)[:limit]
    for k in range(1, max_k + 1):
        for sub in itertools.combinations(fs, k):
            tot = ({}, 0)
            for f in sub:
                tot = lin_add(tot, f)
            if absurd(tot):
                return True
    return False


def entails(facts, q, max_k=3):
    """Is q <= 0 implied?  Sound, incomplete: q - sum(subset of facts) must have only non-positive coefficients
    (atoms are unsigned, hence -atom <= 0) and a non-positive constant."""
    def nonpos(l):
        return l[1] <= 0 and all(v <= 0 for v in l[0].values())
    if nonpos(q):
        return True
    # only facts sharing an atom with the query (transitively) are useful; keep it simple: filter by atoms
    atoms = set(q[0])
    useful = []
    pool = list(facts)
    changed = True
    while changed:
        changed = False
        for f in list(pool):
            if set(f[0]) & atoms:
                useful.append(f)
                pool.remove(f)
                atoms |= set(f[0])
                changed = True
    for f in useful:
        if nonpos(lin_add(q, f, -1)):
            return True
    qa = set(q[0])
    useful.sort(key=lambda f: -len(set(f[0]) & qa))
    useful = useful[:28]
    for k in range(2, max_k + 1):
        for sub in itertools.combinations(useful, k):
            r = q
            for f in sub:
                r = lin_add(r, f, -1)
            if nonpos(r):
                return True
    for f in useful:
        r = lin_add(lin_add(q, f, -1), f, -1)
        if nonpos(r):
            return True
    return False
