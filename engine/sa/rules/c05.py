"""C05 - no peer-controlled input can panic or wedge a connection.

R1  panic-site ledger for everything reachable from recv() (every receive handler with builders and
    GenericConnection helpers inlined, the dispatcher, recv itself, the framer) and, reported separately,
    from the local API: each assert / unwrap / index / explicit panic met on some abstract path is
    discharged mechanically (D1 constants, D2 linear path facts, D3 type intervals, D4 parser-established
    non-zero packet identifiers, D3p property-value invariants from C18-R2) or is an audited ledger entry.
R2  every loop on those paths terminates (iterator-driven / progressing cursor / audited).
R3  nothing is swallowed: every normal return of a receive handler delivers the packet, reports an error, or
    (QoS 2 duplicate) requests the PUBREC; no callee's event list is dropped.
R4  after notify_closed the object accepts a new connection: every path ends with status = Disconnected
    and the framer reset.
"""
import re

import conn
import explore
import linear
import panics
from rules import c04 as C04

PROPMOD = "mqtt::packet::property::"
ZERO_FORBIDDEN = ("ReceiveMaximum", "TopicAlias", "MaximumPacketSize", "SubscriptionIdentifier")


def prop_rejects_zero(F, name):
    """Both constructors of a numeric property reject 0 (same extraction as C18-R2, zero test only)."""
    for fn in ("new", "parse"):
        path = PROPMOD + name + "::" + fn
        if path not in F.fns:
            return False
        ex = explore.Explorer(F)
        okp = True
        err_zero = False
        nok = 0
        for p in ex.run(path):
            if p.kind != "return" or not (p.ret and p.ret[0] == "agg" and p.ret[1] == "std::result::Result"):
                continue
            z = None
            for k, c in p.cons.items():
                if k[0] == "cmp" and k[1] == "Eq" and c[0] == "eq" and any(o[0] == "c" and o[1] == 0 for o in (k[2], k[3])) \
                        and not any("len" in repr(conn.expand_all(ex.interned_rev, o)) for o in (k[2], k[3])):
                    z = (c[1] == 1)
            if p.ret[2] == "Ok":
                nok += 1
                if z is not False:
                    okp = False
            elif z is True:
                err_zero = True
        if not (okp and err_zero and nok):
            return False
    return True


def zero_rejecting_parsers(F):
    """Packet types whose parse() decides an all-zero test on the id bytes false on every accepting path (C04-R5)."""
    out = set()
    for f in F.fns.values():
        m = re.match(r"^(mqtt::packet::(v3_1_1|v5_0)::(\w+)::Generic\w+)::<PacketIdType>::parse$", f["path"])
        if not m:
            continue
        ex = explore.Explorer(F, inline_pred=lambda ex, callee, info: callee.get("kind") == "Closure" or explore.small_private_helper(callee))
        good = True
        nid = 0
        for p in ex.run(f["path"]):
            if p.kind != "return" or not (p.ret and p.ret[0] == "agg" and p.ret[2] == "Ok"):
                continue
            pk = p.ret[3][0][1][0] if p.ret[3][0][0] == "tup" else None
            if m.group(3) == "publish" and pk is not None:
                idb = conn.agg_field(F, pk, "packet_id_buf")
                if idb is not None and idb[0] == "agg" and idb[2] == "None":
                    continue
            nid += 1
            if not C04.path_rejects_zero_id(F, p):
                good = False
        if good and nid:
            out.add(m.group(1))
    return out


def check(run, F, tier):
    run.explanation = ("Panic-site ledger over the connection layer (receive handlers, dispatcher, framer, local API) from the abstract paths "
                       "of the explorer with builders inlined: failing / open asserts and unwraps and explicit panics on feasible paths are "
                       "discharged mechanically or must be audited ledger entries; loop termination; no swallowed packet; close re-opens.")
    run.assumptions += ["A-MEM: in-memory lengths and sizes are below 2^56", "A-RL: frames are at most 268 435 455 bytes (enforced by the framer)",
                        "A-CALL: contract-respecting local calls (cursor position <= data length; ids from acquire/register)"]
    ms = conn.gc_methods(F)
    recvh = conn.handlers(F, "process_recv")
    sendh = conn.handlers(F, "process_send")
    ledger = C04.load_ledger("C05")
    zrp = zero_rejecting_parsers(F)
    nonzero_props = {n for n in ZERO_FORBIDDEN if prop_rejects_zero(F, n)}
    run.cov_extra["zero_rejecting_parsers"] = sorted(x.replace("mqtt::packet::", "") for x in zrp)
    run.cov_extra["nonzero_properties"] = sorted(nonzero_props)

    peer_entries = [(f["name"], f, "") for f in recvh.values()] + [("process_recv_packet", ms["process_recv_packet"], "recv-handlers"),
                                                                     ("recv", ms["recv"], "recv-packet")]
    local_names = ["notify_timer_fired", "notify_closed", "set_pingreq_send_interval", "restore_packets", "erase_stored_publish",
                   "regulate_for_store", "release_packet_id", "get_receive_maximum_vacancy_for_send", "send_stored"]
    local_entries = [(f["name"], f, "") for f in sendh.values()] + [(n, ms[n], "") for n in local_names if n in ms]
    feed = F.fns.get("mqtt::connection::packet_builder::PacketBuilder::feed")

    r1 = run.rule("C05-R1", "no undischarged panic site reachable from recv()", floor=140)
    r1l = run.rule("C05-R1L", "no undischarged panic site reachable from the local API", floor=30)
    mech = aud = 0
    used = set()

    def handle(rule, name, f, tag):
        nonlocal mech, aud
        try:
            obs, st = panics.collect(F, f["path"], tag=tag, facts_hook=C04.consumed_facts)
        except explore.ExploreError as e:
            rule.violation(name + "|explore", "cannot explore %s: %s" % (name, e))
            return
        res = conn.paths(F, f["path"], tag=tag)
        interned = res["interned"]
        taken = {o.key for o in obs if o.key in ledger}         # audited keys claimed by sites of their own
        for o in obs:
            if o.status == "discharged":
                mech += 1
                rule.ok(o.key, o.why)
                continue
            why = discharge_special(F, o, interned, zrp, nonzero_props)
            if why:
                mech += 1
                rule.ok(o.key, why)
                continue
            le = panics.ledger_match(ledger, o, taken=taken, entry=f["path"])
            if le is not None:
                aud += 1
                used.add(le.get("via", o.key))
                rule.ok(o.key, "audited: " + le["reason"] + ((" [entry %s]" % le["via"]) if le.get("via") else ""))
                continue
            rule.violation(o.key, "%s: %s %s (%s) at %s:%s - %s" % (name, o.kind, o.desc, o.status, o.site[0].split("::")[-1], o.site[1], o.why),
                           conn.path_summary(o.path), site="%s:%s" % (F.fns[o.site[0]]["file"] if o.site[0] in F.fns else "?", o.site[1]))
        # explicit divergence (unreachable!/panic!) that the collector saw only as a diverging path
        for p in res["paths"]:
            if p.kind != "diverge":
                continue
            cs = [e for e in p.effects if e[0] == "call"]
            if cs and cs[-1][1] in panics.PANIC_FNS:
                continue  # already an obligation ('panic')
    for name, f, tag in sorted(peer_entries, key=lambda x: x[0]):
        handle(r1, name, f, tag)
    if feed:
        # framer explored on its own (PacketBuilder is not inlined into recv)
        inl_feed = lambda ex, callee, info: callee.get("impl_self", "").startswith("mqtt::connection::packet_builder::") \
            or callee.get("impl_self", "").startswith("mqtt::common::cursor::Cursor") or callee.get("kind") == "Closure" \
            or (callee.get("kind") == "Fn" and not callee.get("pub") and len(callee["blocks"]) <= 40
                and callee["path"].startswith(("mqtt::common::cursor::", "mqtt::connection::packet_builder::")))     # their private free helpers
        # ledger keys name the framer's fields by role (discovered by type and use), not by their current spelling
        from rules import c09 as C09
        exf = explore.Explorer(F, loop_k=1, inline_pred=inl_feed)
        roles = C09.discover_roles(F, exf.run(feed["path"]), exf.interned_rev)
        obs, st = panics.collect(F, feed["path"], inline_pred=inl_feed, facts_hook=C04.consumed_facts, rename={v: k for k, v in roles.items()})
        for o in obs:
            if o.status == "discharged":
                mech += 1
                r1.ok(o.key, o.why)
            elif panics.ledger_match(ledger, o) is not None:
                aud += 1
                used.add(o.key)
                r1.ok(o.key, "audited: " + panics.ledger_match(ledger, o)["reason"])
            else:
                r1.violation(o.key, "feed: %s %s (%s) at line %s - %s" % (o.kind, o.desc, o.status, o.site[1], o.why), conn.path_summary(o.path),
                             site="%s:%s" % (feed["file"], o.site[1]))
    for name, f, tag in sorted(local_entries, key=lambda x: x[0]):
        handle(r1l, name, f, tag)

    # ---- supporting structures: everything the connection layer reaches outside core.rs that the handler exploration
    # treats as an opaque call (identifier allocator, id manager, store, alias tables, payload, cursor) is analysed on its
    # own: explicit asserts / panics (preconditions the callers must establish), unwraps, indexing, and arithmetic on the
    # generic integer type (a trait call in MIR: overflow panics in debug builds, wraps in release builds).
    r1s = run.rule("C05-R1S", "no undischarged panic site in the supporting structures reachable from the connection layer", floor=15)
    SUP = ("src/mqtt/common/value_allocator.rs", "src/mqtt/connection/packet_id_manager.rs", "src/mqtt/connection/store.rs",
           "src/mqtt/packet/topic_alias_send.rs", "src/mqtt/packet/topic_alias_recv.rs", "src/mqtt/common/arc_payload.rs",
           "src/mqtt/common/cursor.rs")
    seen_f, work = set(), [f["path"] for f in ms.values()]
    while work:
        pth = work.pop()
        if pth in seen_f or pth not in F.fns:
            continue
        seen_f.add(pth)
        g = F.fns[pth]
        for b in g["blocks"]:
            t = b["term"]
            if t["k"] == "call" and "fn" in t["func"].get("const", {}):
                fi = t["func"]["const"]["fn"]
                work.append((fi.get("res") or {}).get("path", fi["path"]))
            for s_ in b["stmts"]:
                if s_["k"] == "assign" and s_["rv"]["k"] == "agg" and "closure" in s_["rv"]:
                    work.append(s_["rv"]["closure"])
    nsup = 0

    def sup_helper(callee):
        """small private function of a supporting module: analysed in the context of its callers"""
        return callee.get("kind") in ("Fn", "AssocFn") and not callee.get("pub") and callee.get("file") in SUP and len(callee["blocks"]) <= 14 \
            and not callee.get("impl_trait")
    for pth in sorted(seen_f):
        g = F.fns[pth]
        if g["file"] not in SUP or g.get("kind") == "Closure" or sup_helper(g):
            continue
        nsup += 1
        try:
            obs, st = panics.collect(F, pth, inline_pred=lambda ex, callee, info: callee.get("kind") == "Closure" or sup_helper(callee),
                                     facts_hook=C04.consumed_facts)
        except explore.ExploreError as e:
            r1s.violation(panics.short_fn(pth) + "|explore", "cannot explore %s: %s" % (pth, e))
            continue
        if not obs:
            r1s.ok(panics.short_fn(pth), "no panic site")
        for o in obs:
            if o.status == "discharged":
                mech += 1
                r1s.ok(o.key, o.why)
            elif panics.ledger_match(ledger, o) is not None:
                aud += 1
                used.add(o.key)
                r1s.ok(o.key, "audited: " + panics.ledger_match(ledger, o)["reason"])
            else:
                r1s.violation(o.key, "%s: %s %s (%s) at line %s - %s" % (panics.short_fn(pth), o.kind, o.desc, o.status, o.site[1], o.why),
                              conn.path_summary(o.path), site="%s:%s" % (g["file"], o.site[1]))
    run.cov_extra["support_functions"] = nsup
    run.cov_extra["mechanical"] = mech
    run.cov_extra["audited"] = aud
    stale = sorted(set(ledger) - used)
    if stale:
        r1.note("ledger entries not needed on this tree: %s" % stale[:30])

    # ------------------------------------------------------------------ R2
    r2 = run.rule("C05-R2", "loops on receive / local-API paths terminate", floor=8)
    scope = [f for f in F.fns.values() if f["path"].startswith("mqtt::connection::") and "_serde" not in f["path"] and "::fmt" not in f["path"]]
    for f in sorted(scope, key=lambda f: f["path"]):
        for i, (head, body) in enumerate(C04.natural_loops(f)):
            kind = C04.classify_loop(F, f, head, body)
            key = "%s|loop#%d" % (panics.short_fn(f["path"]), i)
            if kind[0] in ("iterator", "cursor"):
                r2.ok(key, kind[1])
            elif key in ledger:
                r2.ok(key, "audited: " + ledger[key]["reason"])
            else:
                r2.violation(key, "loop in %s is not recognised as terminating: %s" % (f["path"], kind[1]), site="%s:%s" % (f["file"], f["line"]))

    # ------------------------------------------------------------------ R3
    r3 = run.rule("C05-R3", "a received packet is delivered, reported as an error, or answered as a QoS 2 duplicate - never swallowed", floor=24)
    for (ver, kind), f in sorted(recvh.items()):
        res = conn.paths(F, f["path"])
        bad = {}
        n = 0
        for p in res["paths"]:
            if p.kind != "return":
                continue
            n += 1
            w = conn.word(p)
            if w is None:
                bad.setdefault("untracked event list", p)
                continue
            if "NotifyPacketReceived" in w or any(x.startswith("NotifyError") for x in w):
                continue
            if kind == "publish" and "RequestSendPacket" in w and any(e[0] == "enter" and e[1].endswith("process_send_%s_pubrec" % ver) for e in p.effects):
                continue
            sts = ",".join(sorted(conn.status_at_entry(F, p)))
            # what the path had established about the connection's sets (`id already in qos2_publish_handled`): part of the
            # identity of the case, so that a recorded finding does not cover a different swallow in the same handler
            mem = set()
            for k_, c_ in p.cons.items():
                ke = conn.expand_all(res["interned"], k_)
                if ke[0] == "call" and ke[1].split("::")[-1] in ("contains", "insert", "contains_key") and ke[2] and c_[0] == "eq":
                    sp = re.search(r"\('init', \('self',\), \(\('f', \d+, '(\w+)'\)", repr(ke[2][0]))
                    if sp:
                        present = (c_[1] == 1) if ke[1].endswith("contains") or ke[1].endswith("contains_key") else (c_[1] == 0)
                        mem.add("%s:%s" % (sp.group(1), "present" if present else "absent"))
            for st_ in sts.split(","):          # one case per status value, however the code groups them into paths
                bad.setdefault("returns %s with status=%s%s" % (w, st_, (" " + ",".join(sorted(mem))) if mem else ""), p)
        key = f["name"]
        if bad:
            for pr, p in sorted(bad.items()):
                r3.violation("%s/%s" % (key, pr), "%s: a received packet is neither delivered nor reported: %s" % (key, pr), conn.path_summary(p),
                             site="%s:%s" % (f["file"], f["line"]))
        else:
            r3.ok(key, {"paths": n})
    # dispatcher + recv: non-handler paths end in an error event or nothing (Incomplete)
    res = conn.paths(F, ms["process_recv_packet"]["path"], tag="recv-handlers")
    bad = None
    for p in res["paths"]:
        if p.kind != "return":
            continue
        ev = p.events() or ()
        if any(isinstance(e, tuple) and e and e[0] == "sub" for e in ev):
            continue
        w = [conn.ev_name(e) for e in ev]
        if not any(x.startswith("NotifyError") for x in w):
            bad = (p, w)
    if bad:
        r3.violation("process_recv_packet", "dispatcher drops a packet without a handler and without an error event: %s" % bad[1], conn.path_summary(bad[0]))
    else:
        r3.ok("process_recv_packet")
    # no dropped event list: every call returning Vec<GenericEvent> inside GenericConnection flows into extend/return
    dropped = []
    for f in conn.gc_methods(F).values():
        for b in f["blocks"]:
            t = b["term"]
            if t["k"] == "call" and "fn" in t["func"].get("const", {}):
                fi = t["func"]["const"]["fn"]
                cp = (fi.get("res") or {}).get("path", fi["path"])
                g = F.fns.get(cp)
                if g is not None and "GenericEvent" in g["locals"][0] and g.get("impl_self", "").startswith(conn.GC_ADT):
                    dest = t["dest"]["l"]
                    used_ = False
                    for b2 in f["blocks"]:
                        for s in b2["stmts"]:
                            if s["k"] == "assign" and s["rv"]["k"] == "use":
                                pl = s["rv"]["op"].get("move") or s["rv"]["op"].get("copy")
                                if pl and pl["l"] == dest:
                                    used_ = True
                        tt = b2["term"]
                        if tt["k"] == "call":
                            for a in tt["args"]:
                                pl = a.get("move") or a.get("copy")
                                if pl and pl["l"] == dest:
                                    used_ = True
                    if dest == 0:
                        used_ = True
                    if not used_:
                        dropped.append("%s drops the events of %s" % (f["name"], g["name"]))
    if dropped:
        for d in dropped:
            r3.violation("dropped:" + d.split(" ")[0] + ">" + d.split(" ")[-1], d)
    else:
        r3.ok("no-dropped-event-list")

    # ------------------------------------------------------------------ R4
    r4 = run.rule("C05-R4", "notify_closed leaves the object ready for a new connection", floor=1)
    res = conn.paths(F, ms["notify_closed"]["path"])
    bad = None
    n = 0
    for p in res["paths"]:
        if p.kind != "return":
            continue
        n += 1
        ws = [e for e in p.effects if e[0] == "write" and conn.field_of_write(e) == "status"]
        rs = conn.calls(p, "PacketBuilder::reset")
        if not ws or ws[-1][3] != ("agg", conn.STATUS, "Disconnected", ()) or not rs:
            bad = p
    if bad or n == 0:
        r4.violation("notify_closed", "a path of notify_closed does not end with status=Disconnected and a reset framer", conn.path_summary(bad) if bad else None)
    else:
        r4.ok("notify_closed", {"paths": n})
    conn.prune_path_cache(F)


def discharge_special(F, o, interned, zrp, nonzero_props):
    """D4 / D3p: failing builder unwraps and property-value asserts whose deciding atom contradicts an invariant
    established by the parsers (checked, not assumed)."""
    p = o.path
    if p is None:
        return None
    # D4: automatic-response builder fails only because the id taken from a parsed packet would be zero
    if o.kind == "unwrap" and o.status == "fails":
        # the zero test in any of its spellings: all(b == 0) holds / any(b != 0) does not hold
        alls = []
        for e in p.effects:
            if e[0] != "call" or not (e[1].endswith("Iterator>::all") or e[1].endswith("Iterator>::any")):
                continue
            zk = C04.zero_closure_kind(F, e)
            tr = conn.truth(p, e)
            if (e[1].endswith("::all") and zk == "Eq" and tr is True) or (e[1].endswith("::any") and zk == "Ne" and tr is False):
                alls.append(e)
        for e in alls:
            s = repr(conn.expand_all(interned, e[3]))
            m = re.search(r"'(mqtt::packet::(?:v3_1_1|v5_0)::\w+::Generic\w+)::<PacketIdType>::packet_id'", s)
            if m and m.group(1) in zrp and "::parse'" in s:
                return "D4: the builder can only fail on a zero id, the id comes from %s::parse which rejects zero (C04-R5)" % m.group(1).replace("mqtt::packet::", "")
    # D3p: assert!(prop.val() != 0) on a property whose constructors reject zero
    if o.kind in ("panic", "assert") and o.status == "fails":
        for k, c in p.cons.items():
            ke = conn.expand_all(interned, k)
            if ke[0] == "cmp" and ke[1] == "Eq" and c == ("eq", 1):
                for a, b in ((ke[2], ke[3]), (ke[3], ke[2])):
                    if b[0] == "c" and b[1] == 0 and a[0] == "sym" and a[1][0] == "call":
                        mm = re.match(r"^mqtt::packet::property::(\w+)::val$", a[1][1])
                        if mm and mm.group(1) in nonzero_props:
                            return "D3p: %s::val() != 0 is established by both constructors (C18-R2)" % mm.group(1)
    return None
