"""C19 - close requests are ordered after the last packet to flush.

R1  no abstract event word returned by any public method (or any handler) has a
    RequestClose before a RequestSendPacket (A4 words from A3 paths; `recv` is composed
    with every receive handler's word set).
R2  every DISCONNECT send path that emits the packet emits RequestClose later in the same
    word; every CONNACK send path that emits without a later Close is constrained to the
    success code (wire value 0) of its return/reason code.
R3  keep-alive receive timeouts: v3.1.1 -> Close on every path; v5.0/Connected -> the
    DISCONNECT handler is entered with reason KeepAliveTimeout and its emitting paths close.
"""
import conn


def sc_projection(w):
    return "".join("S" if x == "RequestSendPacket" else "C" if x == "RequestClose" else "" for x in w)


def words_of(F, fn_path, tag=""):
    r = conn.paths(F, fn_path, tag=tag)
    out = []
    for p in r["paths"]:
        if p.kind != "return":
            continue
        ev = p.events()
        out.append((p, ev))
    return out


def check(run, F, tier):
    run.explanation = ("Abstract event words of every public method and handler of GenericConnection, computed by the "
                       "path-sensitive explorer over MIR (all CFG paths, loops unrolled once, closures 0..1 times); "
                       "ordering and accompaniment rules are evaluated on every word. Over-approximates paths, so a pass "
                       "covers every history (each returned list is produced by one call).")
    ms = conn.gc_methods(F)
    r1 = run.rule("C19-R1", "no RequestClose before RequestSendPacket in any returned event list", floor=48)
    recvh = conn.handlers(F, "process_recv")
    sendh = conn.handlers(F, "process_send")
    # handler summaries
    summaries = {}
    unknown = 0
    for f in sorted(list(recvh.values()) + list(sendh.values()), key=lambda f: f["name"]):
        projs = set()
        bad = None
        for p, ev in words_of(F, f["path"]):
            if ev is None:
                unknown += 1
                bad = bad or (p, ["<untracked return value>"])
                continue
            w = [conn.ev_name(e) for e in ev]
            if "?" in w or "??" in w:
                unknown += 1
            pr = sc_projection(w)
            projs.add(pr)
            if "CS" in pr and bad is None:
                bad = (p, w)
        summaries[f["path"]] = projs
        if bad:
            r1.violation("%s" % f["name"], "event word with RequestClose before RequestSendPacket in %s: %s" % (f["name"], bad[1]),
                         conn.path_summary(bad[0]), site="%s:%s" % (f["file"], f["line"]))
        else:
            r1.ok(f["name"], {"projections": sorted(projs)})
    if unknown:
        r1.violation("untracked-words", "%d handler paths return an event list the analysis could not track" % unknown)
    # public entry points
    pubs = [f for n, f in ms.items() if f.get("pub") and "GenericEvent" in f["locals"][0]]
    for f in sorted(pubs, key=lambda f: f["name"]):
        if f["name"] == "checked_send":
            continue  # generic dispatch to the same process_send_* handlers (agreement checked in C11-R2)
        tag = "recv-handlers" if f["name"] == "recv" else ""
        bad = None
        n = 0
        for p, ev in words_of(F, f["path"], tag=tag):
            n += 1
            if ev is None:
                bad = bad or (p, ["<untracked>"])
                continue
            # expand handler placeholders with each projection of the callee
            projs = {""}
            for e in ev:
                if isinstance(e, tuple) and e and e[0] == "sub":
                    subs = summaries.get(e[1])
                    if subs is None:
                        subs = {"?"}
                    projs = {a + b for a in projs for b in subs}
                else:
                    nm = conn.ev_name(e)
                    if nm in ("?", "??"):
                        projs = {a + "?" for a in projs}
                    else:
                        projs = {a + sc_projection([nm]) for a in projs}
            for pr in projs:
                if "CS" in pr or "?" in pr:
                    bad = bad or (p, [conn.ev_name(e) if not (isinstance(e, tuple) and e and e[0] == "sub") else "<%s>" % e[1].split("::")[-1] for e in ev])
        if bad:
            r1.violation("pub:%s" % f["name"], "public method %s can return Close before Send (or an untracked list): %s" % (f["name"], bad[1]),
                         conn.path_summary(bad[0]), site="%s:%s" % (f["file"], f["line"]))
        else:
            r1.ok("pub:%s" % f["name"], {"paths": n})

    # ---------------------------------------------------------------- R2
    r2 = run.rule("C19-R2", "every DISCONNECT sent and every failing CONNACK sent is followed by RequestClose in the same list", floor=4)
    for (ver, kind), f in sorted(sendh.items()):
        if kind not in ("disconnect", "connack"):
            continue
        bad = None
        n = 0
        for p, ev in words_of(F, f["path"]):
            w = [conn.ev_name(e) for e in (ev or ())]
            if "RequestSendPacket" not in w:
                continue
            n += 1
            last_s = max(i for i, x in enumerate(w) if x == "RequestSendPacket")
            closes_after = any(x == "RequestClose" for x in w[last_s + 1:])
            if closes_after:
                continue
            if kind == "disconnect":
                bad = bad or (p, w, "DISCONNECT emitted without a later RequestClose")
                continue
            # connack: the path must be constrained to the success code
            rc = [e for e in p.effects if e[0] == "call" and e[1].split("::")[-1] in ("return_code", "reason_code")]
            okp = False
            for e in rc:
                term = e[4][1]
                # find the enum type from constraints
                adts_ = {k[2] for k, c in p.cons.items() if k[0] == "discr" and k[1] == term}
                if not adts_:
                    # no discriminant test: the enum type from the accessor's return type
                    g_ = F.fns.get(e[1])
                    if g_ is not None and g_["locals"][0] in F.adts:
                        adts_ = {g_["locals"][0]}
                for adt_ in adts_:
                    poss = conn.rc_possible(F, p, term, adt_)
                    dom = conn.enum_domain(F, adt_)
                    if poss == {dom.get(0)}:
                        okp = True
            if not okp:
                bad = bad or (p, w, "CONNACK emitted without RequestClose on a path not restricted to the success code")
        key = "%s_%s" % (ver, kind)
        if n == 0:
            r2.violation(key, "no emitting path found in %s" % f["name"])
        elif bad:
            r2.violation(key, "%s in %s: %s" % (bad[2], f["name"], bad[1]), conn.path_summary(bad[0]), site="%s:%s" % (f["file"], f["line"]))
        else:
            r2.ok(key, {"emitting_paths": n})

    # ---------------------------------------------------------------- R3
    r3 = run.rule("C19-R3", "keep-alive receive timeouts result in a close request on an established connection", floor=4, kind="E")
    f = ms["notify_timer_fired"]
    fields = conn.gc_fields(F)
    kinds = conn.enum_domain(F, conn.TIMERKIND)
    cells = {}
    for p, ev in words_of(F, f["path"]):
        w = [conn.ev_name(e) for e in (ev or ())]
        tk = conn.possible(F, p, ("arg", "kind"), conn.TIMERKIND)
        vs = conn.version_at_entry(F, p)
        stt = conn.status_at_entry(F, p)
        for k in tk:
            for v in vs:
                for s in stt:
                    cells.setdefault((k, v, s), []).append((p, w))
    for (k, v, s), lst in sorted(cells.items()):
        if k not in ("PingreqRecv", "PingrespRecv"):
            continue
        if v == "Undetermined":
            continue
        if v == "V5_0" and s != "Connected":
            continue
        if v == "V3_1_1" and s != "Connected":
            # property speaks about an established connection; v3.1.1 closes regardless - still checked
            pass
        bad = {}
        for p, w in lst:
            if "RequestClose" not in w:
                bad.setdefault(tuple(w), p)
        key = "%s/%s/%s" % (k, v, s)
        for w, p in sorted(bad.items()):
            r3.violation(key + "/" + ",".join(w), "timer %s expiry on %s/%s can return without RequestClose: %s" % (k, v, s, list(w)),
                         conn.path_summary(p), site="%s:%s" % (f["file"], f["line"]))
        if not bad:
            r3.ok(key, {"paths": len(lst)})
    conn.prune_path_cache(F)
