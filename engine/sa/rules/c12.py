"""C12 - Receive Maximum flow control (inductive steps).

R1  increment discipline: every emission of an accepted QoS>0 v5 PUBLISH, and every re-emission of a stored
    PUBLISH by send_stored, lies on a path that increments the outbound counter when the peer announced a
    Receive Maximum, after the `count == max` refusal test.
R2  decrement discipline: exactly the exchange-completion paths (matched PUBACK, matched failing PUBREC,
    matched PUBCOMP, successful erase_stored_publish) decrement, under the same guard, and every decrement
    is dominated by `count > 0` (no wrap / panic whatever the peer sends).
R3  the refusal test compares the counter with the peer's announced value, yields ReceiveMaximumExceeded and
    no emission; vacancy is max.saturating_sub(count).
R4  inbound: for QoS>0 the `len >= max` test dominates insertion into publish_recv and the notification; its
    true edge sends DISCONNECT(ReceiveMaximumExceeded) and delivers nothing; ids leave publish_recv when
    PUBACK / PUBCOMP / failing PUBREC is sent.
"""
import conn

CNT = "publish_send_count"


def cnt_writes(p):
    """('inc'|'dec'|'other', effect) for writes to the outbound counter."""
    out = []
    for e in p.effects:
        if conn.field_of_write(e) == CNT:
            v = e[3]
            k = "other"
            if v[0] == "sym" and v[1][0] == "bin":
                op = v[1][1]
                b = v[1][3]
                if b == ("c", 1, "u16") or (b[0] == "c" and b[1] == 1):
                    k = "inc" if op == "Add" else "dec" if op == "Sub" else "other"
            elif v[0] == "c":
                k = "const"
            out.append((k, e))
    return out


def check(run, F, tier):
    run.explanation = "Counter increment/decrement discipline, refusal test and inbound limit evaluated on all abstract paths of the v5 PUBLISH/ack handlers, send_stored and erase_stored_publish."
    ms = conn.gc_methods(F)
    recvh = conn.handlers(F, "process_recv")
    sendh = conn.handlers(F, "process_send")
    OPT = "std::option::Option"
    maxt = conn.field_term("publish_send_max", F)
    cntt = conn.field_term(CNT, F)

    def P(f):
        r = conn.paths(F, f["path"])
        return [p for p in r["paths"] if p.kind == "return"], r["interned"]

    def positive(p):
        """count > 0 established on the path, in any spelling (`count > 0`, `count != 0`, `count >= 1`, a successful
        `checked_sub(1)`): decided from the path's linear facts."""
        for k, c in p.cons.items():
            if k[0] == "cmp" and k[1] == "Lt" and k[2][0] == "c" and k[2][1] == 0 and k[3] == ("sym", cntt) and c == ("eq", 1):
                return True
        c = p.cons.get(cntt)
        if c is not None and c[0] == "ne" and 0 in c[1]:
            return True
        return conn.decide(p, {}, ("c", 0, "u16"), "lt", ("sym", cntt)) is True

    # ------------------------------------------------------------------ R1 / R3
    r1 = run.rule("C12-R1", "every QoS>0 v5 PUBLISH emission / stored re-emission is counted when the peer announced Receive Maximum", floor=2)
    r3 = run.rule("C12-R3", "refusal test: counter compared with the peer's Receive Maximum; exceeded => error, no emission; vacancy saturating", floor=2)
    f = sendh[("v5_0", "publish")]
    ps, interned = P(f)
    problems = {}
    rproblems = {}
    n_emit = n_ref = 0
    for p in ps:
        q = conn.qos_of(F, p)
        w = conn.word(p) or []
        cw = cnt_writes(p)
        mx = conn.possible(F, p, maxt, OPT)
        eqatoms = [(k, c) for k, c in p.cons.items() if k[0] == "cmp" and k[1] == "Eq" and ("sym", cntt) in (k[2], k[3])]
        if q == {"AtMostOnce"}:
            if cw:
                problems.setdefault("QoS 0 publish changes the counter", p)
            continue
        if "NotifyError(ReceiveMaximumExceeded)" in w:
            n_ref += 1
            if "RequestSendPacket" in w:
                rproblems.setdefault("ReceiveMaximumExceeded reported but the packet is emitted", p)
            okc = False
            for k, c in eqatoms:
                other = k[3] if k[2] == ("sym", cntt) else k[2]
                if c == ("eq", 1) and "publish_send_max" in repr(other):
                    okc = True
            if not okc:
                rproblems.setdefault("refusal is not the result of count == peer's Receive Maximum", p)
            if any(k == "inc" for k, e in cw):
                rproblems.setdefault("counter incremented on the refusal path", p)
            continue
        if "RequestSendPacket" in w and not conn.errors(p):
            n_emit += 1
            if mx == {"Some"}:
                if [k for k, e in cw] != ["inc"]:
                    problems.setdefault("emitted QoS>0 PUBLISH with Receive Maximum announced: counter writes %s (expected one increment)" % [k for k, e in cw], p)
                if not any(c == ("eq", 0) and "publish_send_max" in repr(k) for k, c in eqatoms):
                    problems.setdefault("increment not preceded by the `count == max` refusal test", p)
            elif mx == {"None"}:
                if cw:
                    problems.setdefault("counter changed although the peer announced no Receive Maximum", p)
            else:
                problems.setdefault("emission path does not test publish_send_max", p)
        elif not conn.errors(p) and mx == {"Some"} and [k for k, e in cw] != ["inc"] and conn.calls(p, "GenericStore::<PacketIdType>::add"):
            # stored-only acceptance (not connected): counted at re-emission by send_stored
            pass
    if n_emit == 0:
        problems.setdefault("no emitting QoS>0 path (anchor lost)", None)
    if n_ref == 0:
        rproblems.setdefault("no ReceiveMaximumExceeded path (anchor lost)", None)
    for pr, p in sorted(problems.items()):
        r1.violation("%s/%s" % (f["name"], pr), "%s: %s" % (f["name"], pr), conn.path_summary(p) if p else None, site="%s:%s" % (f["file"], f["line"]))
    if not problems:
        r1.ok(f["name"], {"emitting_paths": n_emit})
    for pr, p in sorted(rproblems.items()):
        r3.violation("%s/%s" % (f["name"], pr), "%s: %s" % (f["name"], pr), conn.path_summary(p) if p else None)
    if not rproblems:
        r3.ok(f["name"], {"refusal_paths": n_ref})
    # send_stored
    f = ms["send_stored"]
    ps, interned = P(f)
    problems = {}
    n = 0
    for p in ps:
        emitted = [ev for i, ev in conn.pushes(p, "RequestSendPacket")]
        if not emitted:
            if cnt_writes(p):
                problems.setdefault("the counter is changed on a path that re-emits nothing (a dropped / skipped stored packet is counted)", p)
            continue
        if len(emitted) < len([1 for k, e in cnt_writes(p) if k == "inc"]):
            problems.setdefault("more counter increments than re-emitted packets", p)
        n += 1
        cw = [k for k, e in cnt_writes(p)]
        mx = conn.possible(F, p, maxt, OPT)
        if mx == {"Some"}:
            if cw.count("inc") < 1:
                # an increment that saturates at max is acceptable: then count == max must be known
                sat = any(k[0] == "cmp" and k[1] == "Lt" and k[2] == ("sym", cntt) and c == ("eq", 0) for k, c in p.cons.items())
                if not sat:
                    problems.setdefault("stored packet re-emitted with Receive Maximum announced but not counted", p)
        elif mx == {"None"}:
            if cw:
                problems.setdefault("counter changed without Receive Maximum", p)
        else:
            problems.setdefault("stored packet re-emitted on a path that does not consult publish_send_max (retransmissions are not counted)", p)
    for pr, p in sorted(problems.items()):
        r1.violation("send_stored/" + pr, "send_stored: " + pr, conn.path_summary(p), site="%s:%s" % (f["file"], f["line"]))
    if not problems:
        r1.ok("send_stored", {"re_emitting_paths": n})
    # vacancy: evaluated on concrete states (whatever its spelling: saturating_sub, match, guarded subtraction)
    import explore as _ex
    vf = ms["get_receive_maximum_vacancy_for_send"]
    gf = conn.gc_fields(F)
    OPTN = "std::option::Option"
    badv = []
    cases_v = [(None, 3, None), (5, 0, 5), (5, 3, 2), (5, 5, 0), (5, 7, 0), (0, 0, 0), (65535, 65535, 0), (65535, 1, 65534)]
    for m_, c_, want_ in cases_v:
        def setup_v(exx, st, fr, m_=m_, c_=c_):
            st.heap[(("self",), (("f", gf["publish_send_max"]["i"], "publish_send_max"),))] = \
                ("agg", OPTN, "None", ()) if m_ is None else ("agg", OPTN, "Some", (("c", m_, "u16"),))
            st.heap[(("self",), (("f", gf[CNT]["i"], CNT),))] = ("c", c_, "u16")
        exv = _ex.Explorer(F)
        rets = [pv_.ret for pv_ in exv.run(vf["path"], setup=setup_v) if pv_.kind == "return"]
        good = False
        if len(rets) == 1 and rets[0][0] == "agg" and rets[0][1] == OPTN:
            if want_ is None:
                good = rets[0][2] == "None"
            else:
                good = rets[0][2] == "Some" and rets[0][3][0][0] == "c" and rets[0][3][0][1] == want_
        if not good:
            badv.append("max=%s count=%s -> %s (want %s)" % (m_, c_, [conn.short(r) for r in rets], want_))
    if not badv:
        r3.ok("vacancy", "max - count saturating at 0, None without Receive Maximum (%d concrete states)" % len(cases_v))
    else:
        r3.violation("vacancy", "get_receive_maximum_vacancy_for_send is not `max - count saturating at 0`: %s" % badv[:3])

    # ------------------------------------------------------------------ R2
    r2 = run.rule("C12-R2", "decrement exactly on exchange completion, guarded by Receive Maximum present and count > 0", floor=4)
    completion = {
        "process_recv_v5_0_puback": ("pid_puback", None),
        "process_recv_v5_0_pubcomp": ("pid_pubcomp", None),
        "process_recv_v5_0_pubrec": ("pid_pubrec", "failure"),
    }
    for n, (pset, mode) in sorted(completion.items()):
        f = ms[n]
        ps, interned = P(f)
        problems = {}
        nd = 0
        for p in ps:
            cw = [k for k, e in cnt_writes(p)]
            rem = [(i, e) for i, e in conn.calls(p, "HashSet::<T, S, A>::remove") if pset in repr(e[3][0])]
            matched = bool(rem) and conn.truth(p, rem[0][1]) is True
            mx = conn.possible(F, p, maxt, OPT)
            completes = matched
            if mode == "failure" and matched:
                # exchange ends iff no PUBREL follows: recognised by the release of the id on this path
                completes = bool(conn.calls_outside(p, "PacketIdManager::<T>::release_id")) or \
                    bool([1 for e in conn.calls_outside(p, "PacketIdManager::<T>::is_used_id") if conn.truth(p, e) is False])
            if not completes:
                if cw:
                    problems.setdefault("counter changed on a path that does not complete an exchange", p)
                continue
            if mx == {"Some"}:
                nd += 1
                if cw == ["dec"]:
                    if not positive(p):
                        problems.setdefault("decrement not dominated by `count > 0` (a peer-triggered underflow panics / wraps)", p)
                elif cw == []:
                    c = p.cons.get(cntt)
                    zero = (c == ("eq", 0)) or any(k[0] == "cmp" and k[1] == "Lt" and k[2][0] == "c" and k[2][1] == 0 and k[3] == ("sym", cntt) and cc == ("eq", 0) for k, cc in p.cons.items()) \
                        or conn.decide(p, {}, ("sym", cntt), "le", ("c", 0, "u16")) is True
                    if not zero:
                        problems.setdefault("completed exchange with Receive Maximum announced does not decrement the counter", p)
                else:
                    problems.setdefault("unexpected counter writes %s on completion" % cw, p)
            elif mx == {"None"}:
                if cw:
                    problems.setdefault("counter changed although no Receive Maximum was announced", p)
            else:
                problems.setdefault("completion path does not test publish_send_max", p)
        if nd == 0:
            problems.setdefault("no completing path with Receive Maximum (anchor lost)", None)
        for pr, p in sorted(problems.items()):
            r2.violation("%s/%s" % (n, pr), "%s: %s" % (n, pr), conn.path_summary(p) if p else None, site="%s:%s" % (f["file"], f["line"]))
        if not problems:
            r2.ok(n, {"decrementing_paths": nd})
    f = ms["erase_stored_publish"]
    ps, interned = P(f)
    problems = {}
    for p in ps:
        cw = [k for k, e in cnt_writes(p)]
        er = conn.calls(p, "::erase_publish")
        erased = bool(er) and conn.truth(p, er[0][1]) is True
        if cw and not erased:
            problems.setdefault("counter changed although nothing was erased", p)
        if cw == ["dec"] and not positive(p):
            problems.setdefault("decrement not dominated by `count > 0`", p)
        # an erased PUBLISH (QoS 1 or QoS 2, whichever set tracked it) was an incomplete counted exchange: with a
        # Receive Maximum announced (or not ruled out on the path) its slot is given back unless the counter is already decided zero
        if erased and p.kind == "return" and cw == [] and "Some" in conn.possible(F, p, maxt, OPT):
            c = p.cons.get(cntt)
            zero = (c == ("eq", 0)) or any(k[0] == "cmp" and k[1] == "Lt" and k[2][0] == "c" and k[2][1] == 0 and k[3] == ("sym", cntt) and cc == ("eq", 0) for k, cc in p.cons.items()) \
                or conn.decide(p, {}, ("sym", cntt), "le", ("c", 0, "u16")) is True
            if not zero:
                problems.setdefault("stored PUBLISH erased with Receive Maximum announced but the counter is not decremented (slot leaked)", p)
    for pr, p in sorted(problems.items()):
        r2.violation("erase_stored_publish/" + pr, "erase_stored_publish: " + pr, conn.path_summary(p))
    if not problems:
        r2.ok("erase_stored_publish")
    # nobody else decrements / increments
    others, _w = conn.offending_writers(F, CNT, set(completion) | {"erase_stored_publish", "process_send_v5_0_publish", "send_stored", "initialize", "new"})
    if others:
        r2.violation("other-writers", "publish_send_count is also written by %s" % sorted(others))
    else:
        r2.ok("other-writers")

    # ------------------------------------------------------------------ R4
    r4 = run.rule("C12-R4", "inbound Receive Maximum: test dominates insertion and delivery; excess answered with DISCONNECT(ReceiveMaximumExceeded)", floor=4)
    f = recvh[("v5_0", "publish")]
    ps, interned = P(f)
    rmax = conn.field_term("publish_recv_max", F)
    problems = {}
    n_ins = n_exc = 0
    rme = conn.wire_value(F, "mqtt::result_code::DisconnectReasonCode", "ReceiveMaximumExceeded")
    for p in ps:
        q = conn.qos_of(F, p)
        if q == {"AtMostOnce"}:
            continue
        ins = [(i, e) for i, e in conn.calls(p, "HashSet::<T, S, A>::insert") if "publish_recv'" in repr(e[3][0]) or "'publish_recv')" in repr(e[3][0])]
        w = conn.word(p) or []
        mx = conn.possible(F, p, rmax, OPT)
        lt = None
        for k, c in p.cons.items():
            if k[0] == "cmp" and k[1] == "Lt" and c[0] == "eq":
                ke = conn.expand_all(interned, k)
                if "publish_recv_max" in repr(ke[3]) and "::len" in repr(ke[2]) and "'publish_recv')" in repr(ke[2]):
                    lt = (c[1] == 1)
        if ins:
            n_ins += 1
            if not (mx == {"None"} or (mx == {"Some"} and lt is True)):
                problems.setdefault("id inserted into publish_recv on a path where `len < max` was not established", p)
        if mx == {"Some"} and lt is False:
            n_exc += 1
            if "NotifyPacketReceived" in w:
                problems.setdefault("excess PUBLISH is delivered", p)
            if ins:
                problems.setdefault("excess PUBLISH is recorded in publish_recv", p)
            if "NotifyError(ReceiveMaximumExceeded)" not in w:
                problems.setdefault("excess PUBLISH not reported as ReceiveMaximumExceeded", p)
            ent = [e for e in p.effects if e[0] == "enter" and e[1].endswith("process_send_v5_0_disconnect")]
            okd = False
            for e in ent:
                rb = conn.agg_field(F, e[2][1], "reason_code_buf")
                if rb == ("agg", OPT, "Some", (("arr", (("c", rme, "u8"),)),)):
                    okd = True
            if not okd:
                problems.setdefault("excess PUBLISH not answered with DISCONNECT reason 0x93", p)
        if "NotifyPacketReceived" in w and q <= {"AtLeastOnce", "ExactlyOnce"} and not ins:
            problems.setdefault("QoS>0 PUBLISH delivered without being recorded in publish_recv", p)
    if n_ins == 0 or n_exc == 0:
        problems.setdefault("inserting=%d exceeding=%d paths (anchor lost)" % (n_ins, n_exc), None)
    for pr, p in sorted(problems.items()):
        r4.violation("%s/%s" % (f["name"], pr), "%s: %s" % (f["name"], pr), conn.path_summary(p) if p else None, site="%s:%s" % (f["file"], f["line"]))
    if not problems:
        r4.ok(f["name"], {"inserting_paths": n_ins, "exceeding_paths": n_exc})
    for kind, cond in (("puback", None), ("pubcomp", None), ("pubrec", "failure")):
        f = sendh[("v5_0", kind)]
        ps, interned = P(f)
        bad = None
        n = 0
        for p in ps:
            w = conn.word(p) or []
            if "RequestSendPacket" not in w:
                continue
            rem = [(i, e) for i, e in conn.calls(p, "HashSet::<T, S, A>::remove") if "publish_recv" in repr(e[3][0])]
            if cond == "failure":
                if conn.rc_failing(p) is True:
                    n += 1
                    if not rem:
                        bad = p
                elif rem:
                    bad = p
            else:
                n += 1
                if not rem:
                    bad = p
        if bad or n == 0:
            r4.violation(f["name"], "%s: id is not removed from publish_recv exactly when the exchange ends" % f["name"], conn.path_summary(bad) if bad else None)
        else:
            r4.ok(f["name"], {"paths": n})
    conn.prune_path_cache(F)
