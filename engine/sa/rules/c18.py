"""C18 - v5.0 property placement, multiplicity and forbidden values follow the specification table.

R1  placement + multiplicity (exact): every validate_* function (one per property-carrying location) is
    explored over lists of one and two properties of each of the 27 kinds; accepted / repeated sets are
    compared with spec/properties.json.
R2  forbidden values: `new` and `parse` of each numeric property reject exactly the values the
    specification forbids (zero / greater than one), by the decision atoms on their Err paths.
R3  builder == parser: the validator of a location is called by both the packet's builder validation and
    its parse function, and its result is propagated (an Err return is reachable from the call).
"""
import json
import os
import re

import conn
import explore
from report import VERIF

PROP = "mqtt::packet::property::Property"

LOCATION_FN = {
    "connect": "mqtt::packet::v5_0::connect::validate_connect_properties",
    "will": "mqtt::packet::v5_0::connect::validate_will_properties",
    "connack": "mqtt::packet::v5_0::connack::validate_connack_properties",
    "publish": "mqtt::packet::v5_0::publish::validate_publish_properties",
    "puback": "mqtt::packet::v5_0::puback::validate_puback_properties",
    "pubrec": "mqtt::packet::v5_0::pubrec::validate_pubrec_properties",
    "pubrel": "mqtt::packet::v5_0::pubrel::validate_pubrel_properties",
    "pubcomp": "mqtt::packet::v5_0::pubcomp::validate_pubcomp_properties",
    "subscribe": "mqtt::packet::v5_0::subscribe::validate_subscribe_properties",
    "suback": "mqtt::packet::v5_0::suback::validate_suback_properties",
    "unsubscribe": "mqtt::packet::v5_0::unsubscribe::validate_unsubscribe_properties",
    "unsuback": "mqtt::packet::v5_0::unsuback::validate_unsuback_properties",
    "disconnect": "mqtt::packet::v5_0::disconnect::validate_disconnect_properties",
    "auth": "mqtt::packet::v5_0::auth::validate_auth_packet",
}


def discover_validators(F):
    """validate_* functions in mqtt::packet::v5_0 that take the property list (discovered, then matched to locations)."""
    out = {}
    for f in F.fns.values():
        if f.get("kind") == "Fn" and f["path"].startswith("mqtt::packet::v5_0::") and re.search(r"::validate_\w+$", f["path"]):
            if any("mqtt::packet::property::Property" in t for t in f["locals"][1:f["argc"] + 1]):
                out[f["path"]] = f
    return out


def element_variants(F, p, interned):
    """Variants of the list elements consumed on this path, in order (from the discriminant constraints)."""
    seq = []
    for i, e in conn.calls(p, "::next"):
        res = e[4]
        if res[0] != "sym":
            continue
        o = conn.possible(F, p, res[1], "std::option::Option")
        if o == {"None"}:
            seq.append(None)
            continue
        # payload discriminant constraint
        var = "?"
        rexp = conn.expand_all(interned, res[1])

        def is_elem(ke):
            # discr key of the element behind the reference returned by this very next() call
            t = ke[1]
            return t[0] == "init" and t[1][0] == "D" and t[1][1] == ("field", rexp, 0) and t[2] == ()
        for k, c in p.cons.items():
            if k[0] == "discr" and k[2] == PROP:
                ke = conn.expand_all(interned, k)
                if not is_elem(ke):
                    continue
                if c[0] == "eq":
                    var = F.variant_by_idx(PROP, c[1])["name"]
                else:
                    # `otherwise` arm: some variant not listed - keep the exclusion set
                    var = ("not", frozenset(F.variant_by_idx(PROP, d)["name"] for d in c[1]))
        seq.append(var)
    return seq


def check(run, F, tier):
    run.explanation = ("Exact extraction of the property placement/multiplicity table: each validate_* function is explored "
                       "(path-sensitive, counters constant-folded) over every list of one and two properties; compared cell by "
                       "cell with the transcribed MQTT 5.0 Table 2-4. Forbidden values from the decision atoms of new()/parse().")
    spec = json.load(open(os.path.join(VERIF, "spec", "properties.json")))
    props = spec["properties"]
    allv = [v["name"] for v in F.adt(PROP)["variants"]]
    r1 = run.rule("C18-R1", "placement and multiplicity table equals MQTT 5.0 Table 2-4", floor=27 * 14, kind="E")
    found = discover_validators(F)
    missing = [l for l, p in LOCATION_FN.items() if p not in found]
    extra = [p for p in found if p not in LOCATION_FN.values()]
    for l in missing:
        r1.violation("location:" + l, "validator of location %s not found (%s)" % (l, LOCATION_FN[l]))
    for p in extra:
        r1.violation("unmapped:" + p.split("::")[-1], "property validator %s is not mapped to a location of the oracle table" % p)
    for v in allv:
        if v not in props:
            r1.violation("unknown-property:" + v, "Property::%s is not in the oracle table" % v)
    for loc, path in sorted(LOCATION_FN.items()):
        if path not in found:
            continue
        # Exact evaluation on concrete lists: the validator is run on every list [v], [v, v], [v, UserProperty] and
        # [UserProperty, v] whose elements are Property variants with symbolic payloads.  Iteration over such a list is
        # element-by-element whatever the idiom (for loop, all / any / filter().count() / try_for_each ...), so the
        # accept / reject outcome is read off the returned Result, not off the shape of the code.
        fobj = found[path]
        pidx = [i for i in range(1, fobj["argc"] + 1) if "mqtt::packet::property::Property" in fobj["locals"][i]]
        if len(pidx) != 1:
            r1.violation("location:" + loc, "validator %s: property-list parameter not identified" % path)
            continue
        pidx = pidx[0]
        pty = fobj["locals"][pidx]
        pname = fobj.get("names", {}).get(str(pidx), "arg%d" % pidx)

        def outcome(variants):
            def setup(exx, st, fr):
                items = [("agg", PROP, vn, (("sym", ("elem", i, vn)),)) for i, vn in enumerate(variants)]
                cs = exx.cseq_new(st, "props", items)
                OPT = "std::option::Option"
                if pty.startswith("&std::option::Option<"):
                    st.heap[(("arg", pname), ())] = ("agg", OPT, "Some", (cs,))
                elif pty.startswith("std::option::Option<&"):
                    st.heap[(("CS", "argbox", 0), ())] = cs
                    st.heap[(fr.root(pidx), ())] = ("agg", OPT, "Some", (("ref", ("CS", "argbox", 0), ()),))
                elif pty.startswith("&"):
                    st.heap[(("arg", pname), ())] = cs
                else:
                    st.heap[(fr.root(pidx), ())] = cs
            exv = explore.Explorer(F, loop_k=2)
            res = set()
            for p in exv.run(path, setup=setup):
                if p.kind == "return" and p.ret and p.ret[0] == "agg" and p.ret[1] == "std::result::Result":
                    res.add(p.ret[2] == "Ok")
                elif p.kind == "return":
                    res.add(None)
                elif p.kind == "cut":
                    res.add(None)
            return res
        one = {}
        two = {}
        FILL = "UserProperty"
        try:
            for v in allv:
                one[v] = outcome([v])
                two[(v, v)] = outcome([v, v])
                if v != FILL:
                    two[(v, FILL)] = outcome([v, FILL])
                    two[(FILL, v)] = outcome([FILL, v])
        except explore.ExploreError as e:
            r1.violation("location:" + loc, "validator %s cannot be evaluated on concrete lists: %s" % (path, e))
            continue
        if any(None in s for s in list(one.values()) + list(two.values())):
            und = [k for k, s in list(one.items()) + list(two.items()) if None in s][:4]
            r1.violation("location:" + loc + "/undecided", "validator %s: outcome not decided for lists %s (an iteration idiom the interpreter does not model)" % (path.split("::")[-1], und))
            continue
        for v in allv:
            if v not in props:
                continue
            want_in = loc in props[v]["in"]
            rep = props[v].get("repeat_in", [])
            want_rep = want_in and (rep == "all" or loc in rep)
            # accepted in this location: some list containing v is accepted
            acc = (True in one.get(v, set())) or any(True in s for (x, y), s in two.items() if v in (x, y) and x != y)
            always_rej = one.get(v) == {False} and not any(True in s for (x, y), s in two.items() if v in (x, y))
            key = "%s/%s" % (loc, v)
            if want_in and not acc:
                # the property may need a companion (Authentication Data needs Authentication Method): try every partner
                for w in allv:
                    if w != v and (True in outcome([v, w]) or True in outcome([w, v])):
                        acc = True
                        break
            if want_in and not acc:
                r1.violation(key, "%s must be accepted in %s but every explored list containing it is rejected" % (v, loc))
                continue
            if not want_in and not always_rej:
                r1.violation(key, "%s must be rejected in %s but some list containing it is accepted (single: %s)" % (v, loc, sorted(one.get(v, []))))
                continue
            if want_in:
                dup = two.get((v, v), set())
                if want_rep and True not in dup:
                    r1.violation(key + "/repeat", "%s may repeat in %s but a second occurrence is rejected" % (v, loc))
                    continue
                if not want_rep and (True in dup or not dup):
                    r1.violation(key + "/repeat", "a second %s in %s must be a Protocol Error but [%s, %s] is accepted (or not decided: %s)" % (v, loc, v, v, sorted(dup)))
                    continue
            r1.ok(key, {"in": want_in, "repeat": want_rep})
    run.cov_extra["exhaustive"] = True

    # ------------------------------------------------------------------ R2
    r2 = run.rule("C18-R2", "forbidden property values rejected by new() and parse() exactly as specified", floor=24, kind="E")
    for v in allv:
        if v not in props or props[v]["type"] not in ("byte", "u16", "u32", "vbi"):
            continue
        want = spec["forbidden_values"].get(v)
        for fn in ("new", "parse"):
            path = "mqtt::packet::property::%s::%s" % (v, fn)
            if path not in F.fns:
                r2.violation("%s::%s" % (v, fn), "constructor %s not found" % path)
                continue
            ex = explore.Explorer(F)
            ps = ex.run(path)
            interned = ex.interned_rev
            sig = {"zero": {"err_true": False, "ok_false": True, "ok_n": 0}, "gt1": {"err_true": False, "ok_false": True, "ok_n": 0}}
            has_ok = False
            for p in ps:
                if p.kind != "return" or not (p.ret and p.ret[0] == "agg" and p.ret[1] == "std::result::Result"):
                    continue
                isok = p.ret[2] == "Ok"
                has_ok |= isok
                tests = {"zero": None, "gt1": None}
                for k, c in p.cons.items():
                    if k[0] == "cmp" and c[0] == "eq":
                        if k[1] == "Eq" and any(o[0] == "c" and o[1] == 0 for o in (k[2], k[3])) and not any("len" in repr(conn.expand_all(interned, o)) for o in (k[2], k[3])):
                            tests["zero"] = (c[1] == 1)
                        if k[1] == "Lt" and k[2][0] == "c" and k[2][1] == 1 and "len" not in repr(conn.expand_all(interned, k[3])):
                            tests["gt1"] = (c[1] == 1)
                for t in ("zero", "gt1"):
                    if not isok and tests[t] is True:
                        sig[t]["err_true"] = True
                    if isok:
                        sig[t]["ok_n"] += 1
                        if tests[t] is not False:
                            sig[t]["ok_false"] = False
            got = {t for t in sig if sig[t]["err_true"] and sig[t]["ok_false"] and sig[t]["ok_n"] > 0}
            key = "%s::%s" % (v, fn)
            # value restricted by the parameter's type: a fieldless enum whose discriminants are all allowed
            pty = F.fns[path]["locals"][1] if F.fns[path]["argc"] >= 1 else ""
            if want == "gt1" and pty in F.adts and F.adts[pty]["kind"] == "enum" and all(x.get("discr", 9) <= 1 and not x["fields"] for x in F.adts[pty]["variants"]):
                got = got | {"gt1"}
            if not has_ok:
                r2.violation(key, "%s has no accepting path" % path)
            elif want is None and got:
                r2.violation(key, "%s rejects values (%s) the specification allows" % (path, sorted(got)))
            elif want is not None and want not in got:
                r2.violation(key, "%s does not reject the forbidden values (%s) of %s on every accepting path" % (path, want, v))
            else:
                r2.ok(key, sorted(got))

    # ------------------------------------------------------------------ R3
    r3 = run.rule("C18-R3", "each location's validator is called (and its error propagated) by both the builder and the parser", floor=14 * 2)
    cg = {}
    for f in F.fns.values():
        for b in f["blocks"]:
            t = b["term"]
            if t["k"] == "call" and "fn" in t["func"].get("const", {}):
                fi = t["func"]["const"]["fn"]
                cp = (fi.get("res") or {}).get("path", fi["path"])
                cg.setdefault(cp, []).append((f, b, t))
    for loc, path in sorted(LOCATION_FN.items()):
        sites = cg.get(path, [])
        kinds = {"parse": [], "build": []}
        for f, b, t in sites:
            nm = f.get("name", "")
            if nm == "parse":
                kinds["parse"].append((f, b, t))
            elif nm in ("validate", "build"):
                kinds["build"].append((f, b, t))
        for k in ("parse", "build"):
            key = "%s/%s" % (loc, k)
            if not kinds[k]:
                r3.violation(key, "%s is not called from the %s path of its packet" % (path.split("::")[-1], "parser" if k == "parse" else "builder"))
                continue
            # result must flow into a Try::branch / match (propagated), i.e. dest is used by a later call/switch
            f, b, t = kinds[k][0]
            dest = t["dest"]["l"]
            used = dest == 0          # returned as the function's own result
            # ... or moved into the return place (possibly through one temporary)
            alias = {dest}
            for _ in range(3):
                for b2 in f["blocks"]:
                    for s in b2["stmts"]:
                        if s["k"] == "assign" and s["rv"]["k"] == "use":
                            pl = s["rv"]["op"].get("move") or s["rv"]["op"].get("copy")
                            if pl and pl["l"] in alias and not pl["p"] and not s["lhs"]["p"]:
                                alias.add(s["lhs"]["l"])
            if 0 in alias:
                used = True
            for b2 in f["blocks"]:
                tt = b2["term"]
                if tt["k"] == "call":
                    for a in tt["args"]:
                        pl = a.get("move") or a.get("copy")
                        if pl and pl["l"] in alias:
                            used = True
                for s in b2["stmts"]:
                    if s["k"] == "assign" and s["rv"]["k"] == "discr" and s["rv"]["place"]["l"] in alias:
                        used = True
            if used:
                r3.ok(key, f["path"].split("::")[-2] + "::" + f["path"].split("::")[-1])
            else:
                r3.violation(key, "result of %s is dropped in %s" % (path.split("::")[-1], f["path"]))
