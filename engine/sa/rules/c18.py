"""C18 - v5.0 property placement, multiplicity and forbidden values follow the specification table.

R1  placement + multiplicity (exact): every validate_* function (one per property-carrying location) is
    explored over lists of one and two properties of each of the 27 kinds; accepted / repeated sets are
    compared with spec/properties.json.
R2  forbidden values: `new` and `parse` of each numeric property reject exactly the values the
    specification forbids (zero / greater than one), by the decision atoms on their Err paths.
R3  builder == parser: the validator of a location is called by both the packet's builder validation and
    its parse function, and its result is propagated (an Err return is reachable from the call).
"""
import json
import os
import re

import conn
import explore
from report import VERIF

PROP = "mqtt::packet::property::Property"

LOCATION_FN = {
    "connect": "mqtt::packet::v5_0::connect::validate_connect_properties",
    "will": "mqtt::packet::v5_0::connect::validate_will_properties",
    "connack": "mqtt::packet::v5_0::connack::validate_connack_properties",
    "publish": "mqtt::packet::v5_0::publish::validate_publish_properties",
    "puback": "mqtt::packet::v5_0::puback::validate_puback_properties",
    "pubrec": "mqtt::packet::v5_0::pubrec::validate_pubrec_properties",
    "pubrel": "mqtt::packet::v5_0::pubrel::validate_pubrel_properties",
    "pubcomp": "mqtt::packet::v5_0::pubcomp::validate_pubcomp_properties",
    "subscribe": "mqtt::packet::v5_0::subscribe::validate_subscribe_properties",
    "suback": "mqtt::packet::v5_0::suback::validate_suback_properties",
    "unsubscribe": "mqtt::packet::v5_0::unsubscribe::validate_unsubscribe_properties",
    "unsuback": "mqtt::packet::v5_0::unsuback::validate_unsuback_properties",
    "disconnect": "mqtt::packet::v5_0::disconnect::validate_disconnect_properties",
    "auth": "mqtt::packet::v5_0::auth::validate_auth_packet",
}


def discover_validators(F):
    """Property validators of the packet layer, discovered by signature (a free function taking a property list and
    returning Result<.., MqttError>), not by name."""
    return {p: f for p, f in F.fns.items() if conn.is_prop_validator(f)}


def packet_entries(F, loc):
    """(parse functions, builder validate/build functions) of the v5.0 packet module a location belongs to."""
    mod = "connect" if loc == "will" else loc
    pre = "mqtt::packet::v5_0::%s::" % mod
    parse = [p for p in F.fns if p.startswith(pre) and p.endswith("::parse") and "Builder" not in p]
    build = [p for p, f in F.fns.items() if p.startswith(pre) and "Builder" in f.get("impl_self", "") and f.get("name") in ("build", "validate")]
    return parse, build


def builder_through(g):
    return g.get("kind") == "Closure" or explore.small_private_helper(g) or ("Builder" in g.get("impl_self", "") and not g.get("pub"))


def locate(F, found):
    """location -> validator path.  The conventional name when it exists; otherwise the one validator that the
    location's parse function reaches (directly, through private helpers, or as a function pointer) - e.g. a
    validator shared by several packet kinds.  'connect' and 'will' live in one module and are told apart by name only."""
    out = {}
    how = {}
    for loc, path in LOCATION_FN.items():
        if path in found:
            out[loc] = path
            how[loc] = "by name"
            continue
        if loc in ("connect", "will"):
            continue
        parse, _ = packet_entries(F, loc)
        cand = sorted(conn.validators_reached(F, parse))
        if len(cand) == 1:
            out[loc] = cand[0]
            how[loc] = "the validator reached from %s" % parse[0].split("mqtt::packet::")[-1]
    return out, how


def element_variants(F, p, interned):
    """Variants of the list elements consumed on this path, in order (from the discriminant constraints)."""
    seq = []
    for i, e in conn.calls(p, "::next"):
        res = e[4]
        if res[0] != "sym":
            continue
        o = conn.possible(F, p, res[1], "std::option::Option")
        if o == {"None"}:
            seq.append(None)
            continue
        # payload discriminant constraint
        var = "?"
        rexp = conn.expand_all(interned, res[1])

        def is_elem(ke):
            # discr key of the element behind the reference returned by this very next() call
            t = ke[1]
            return t[0] == "init" and t[1][0] == "D" and t[1][1] == ("field", rexp, 0) and t[2] == ()
        for k, c in p.cons.items():
            if k[0] == "discr" and k[2] == PROP:
                ke = conn.expand_all(interned, k)
                if not is_elem(ke):
                    continue
                if c[0] == "eq":
                    var = F.variant_by_idx(PROP, c[1])["name"]
                else:
                    # `otherwise` arm: some variant not listed - keep the exclusion set
                    var = ("not", frozenset(F.variant_by_idx(PROP, d)["name"] for d in c[1]))
        seq.append(var)
    return seq


def check(run, F, tier):
    run.explanation = ("Exact extraction of the property placement/multiplicity table: each validate_* function is explored "
                       "(path-sensitive, counters constant-folded) over every list of one and two properties; compared cell by "
                       "cell with the transcribed MQTT 5.0 Table 2-4. Forbidden values from the decision atoms of new()/parse().")
    spec = json.load(open(os.path.join(VERIF, "spec", "properties.json")))
    props = spec["properties"]
    allv = [v["name"] for v in F.adt(PROP)["variants"]]
    r1 = run.rule("C18-R1", "placement and multiplicity table equals MQTT 5.0 Table 2-4", floor=27 * 14, kind="E")
    found = discover_validators(F)
    LOC, how = locate(F, found)
    run.cov_extra["validators"] = {l: "%s (%s)" % (p.split("mqtt::packet::")[-1], how[l]) for l, p in sorted(LOC.items())}
    missing = [l for l in LOCATION_FN if l not in LOC]
    # a validator that a packet's parser or builder reaches without going through a mapped one has no oracle column
    reached = {}
    for loc in LOCATION_FN:
        parse, build = packet_entries(F, loc)
        reached.update(conn.validators_reached(F, parse))
        reached.update(conn.validators_reached(F, build, through=builder_through))
    extra = [p for p in sorted(reached) if p not in LOC.values()]
    for l in missing:
        r1.violation("location:" + l, "validator of location %s not found (%s, nor a unique validator reached from its parser)" % (l, LOCATION_FN[l]))
    for p in extra:
        r1.violation("unmapped:" + p.split("::")[-1], "property validator %s is applied by a packet but not mapped to a location of the oracle table" % p)
    for v in allv:
        if v not in props:
            r1.violation("unknown-property:" + v, "Property::%s is not in the oracle table" % v)
    for loc, path in sorted(LOC.items()):
        # Exact evaluation on concrete lists: the validator is run on every list [v], [v, v], [v, UserProperty] and
        # [UserProperty, v] whose elements are Property variants with symbolic payloads.  Iteration over such a list is
        # element-by-element whatever the idiom (for loop, all / any / filter().count() / try_for_each ...), so the
        # accept / reject outcome is read off the returned Result, not off the shape of the code.
        fobj = found[path]
        pidx = [i for i in range(1, fobj["argc"] + 1) if "mqtt::packet::property::Property" in fobj["locals"][i]]
        if len(pidx) != 1:
            r1.violation("location:" + loc, "validator %s: property-list parameter not identified" % path)
            continue
        pidx = pidx[0]
        pty = fobj["locals"][pidx]
        pname = fobj.get("names", {}).get(str(pidx), "arg%d" % pidx)

        def outcome(variants):
            def setup(exx, st, fr):
                items = [("agg", PROP, vn, (("sym", ("elem", i, vn)),)) for i, vn in enumerate(variants)]
                cs = exx.cseq_new(st, "props", items)
                OPT = "std::option::Option"
                if pty.startswith("&std::option::Option<"):
                    st.heap[(("arg", pname), ())] = ("agg", OPT, "Some", (cs,))
                elif pty.startswith("std::option::Option<&"):
                    st.heap[(("CS", "argbox", 0), ())] = cs
                    st.heap[(fr.root(pidx), ())] = ("agg", OPT, "Some", (("ref", ("CS", "argbox", 0), ()),))
                elif pty.startswith("&"):
                    st.heap[(("arg", pname), ())] = cs
                else:
                    st.heap[(fr.root(pidx), ())] = cs
            # helpers the validator hands its list to are part of it (a shared occurrence counter, a table walker ...)
            exv = explore.Explorer(F, loop_k=2, inline_pred=lambda ex, callee, info: explore.default_inline(ex, callee, info)
                                   or explore.small_private_helper(callee, props_ok=True))
            res = set()
            for p in exv.run(path, setup=setup):
                if p.kind == "return" and p.ret and p.ret[0] == "agg" and p.ret[1] == "std::result::Result":
                    res.add(p.ret[2] == "Ok")
                elif p.kind == "return":
                    res.add(None)
                elif p.kind == "cut":
                    res.add(None)
            return res
        one = {}
        two = {}
        FILL = "UserProperty"
        try:
            for v in allv:
                one[v] = outcome([v])
                two[(v, v)] = outcome([v, v])
                if v != FILL:
                    two[(v, FILL)] = outcome([v, FILL])
                    two[(FILL, v)] = outcome([FILL, v])
        except explore.ExploreError as e:
            r1.violation("location:" + loc, "validator %s cannot be evaluated on concrete lists: %s" % (path, e))
            continue
        if any(None in s for s in list(one.values()) + list(two.values())):
            und = [k for k, s in list(one.items()) + list(two.items()) if None in s][:4]
            r1.violation("location:" + loc + "/undecided", "validator %s: outcome not decided for lists %s (an iteration idiom the interpreter does not model)" % (path.split("::")[-1], und))
            continue
        for v in allv:
            if v not in props:
                continue
            want_in = loc in props[v]["in"]
            rep = props[v].get("repeat_in", [])
            want_rep = want_in and (rep == "all" or loc in rep)
            # accepted in this location: some list containing v is accepted
            acc = (True in one.get(v, set())) or any(True in s for (x, y), s in two.items() if v in (x, y) and x != y)
            always_rej = one.get(v) == {False} and not any(True in s for (x, y), s in two.items() if v in (x, y))
            key = "%s/%s" % (loc, v)
            if want_in and not acc:
                # the property may need a companion (Authentication Data needs Authentication Method): try every partner
                for w in allv:
                    if w != v and (True in outcome([v, w]) or True in outcome([w, v])):
                        acc = True
                        break
            if want_in and not acc:
                r1.violation(key, "%s must be accepted in %s but every explored list containing it is rejected" % (v, loc))
                continue
            if not want_in and not always_rej:
                r1.violation(key, "%s must be rejected in %s but some list containing it is accepted (single: %s)" % (v, loc, sorted(one.get(v, []))))
                continue
            if want_in:
                dup = two.get((v, v), set())
                if want_rep and True not in dup:
                    r1.violation(key + "/repeat", "%s may repeat in %s but a second occurrence is rejected" % (v, loc))
                    continue
                if not want_rep and (True in dup or not dup):
                    r1.violation(key + "/repeat", "a second %s in %s must be a Protocol Error but [%s, %s] is accepted (or not decided: %s)" % (v, loc, v, v, sorted(dup)))
                    continue
            r1.ok(key, {"in": want_in, "repeat": want_rep})
    run.cov_extra["exhaustive"] = True

    # ------------------------------------------------------------------ R2
    r2 = run.rule("C18-R2", "forbidden property values rejected by new() and parse() exactly as specified", floor=24, kind="E")
    VBI = "mqtt::packet::variable_byte_integer::VariableByteInteger"
    WIDTH = {"byte": 1, "u16": 2, "u32": 4}
    r2inl = lambda ex, callee, info: (explore.default_inline(ex, callee, info) or explore.small_private_helper(callee, props_ok=True)
                                      or callee.get("impl_self", "") == VBI)

    def vbi_bytes(x):
        out = []
        while True:
            b_ = x % 128
            x //= 128
            if x > 0:
                b_ |= 128
            out.append(b_)
            if x == 0:
                return out

    def evaluate(path, setup):
        """{'Ok'} / {'Err'} when the constructor's verdict on a concrete input is decided, anything else otherwise."""
        exq = explore.Explorer(F, inline_pred=r2inl, loop_k=8)
        res = set()
        try:
            for p in exq.run(path, setup=setup):
                if p.kind == "return" and p.ret and p.ret[0] == "agg" and p.ret[1] == "std::result::Result":
                    res.add(p.ret[2])
                elif p.kind in ("return", "cut"):
                    res.add("?")
        except explore.ExploreError:
            res.add("?")
        return res

    def atoms_verdict(path):
        """Fallback when a constructor cannot be evaluated on concrete inputs: the forbidden-value tests among the
        decision atoms of its accepting / rejecting paths."""
        ex = explore.Explorer(F)
        ps = ex.run(path)
        interned = ex.interned_rev
        sig = {"zero": {"err_true": False, "ok_false": True, "ok_n": 0}, "gt1": {"err_true": False, "ok_false": True, "ok_n": 0}}
        has_ok = False
        for p in ps:
            if p.kind != "return" or not (p.ret and p.ret[0] == "agg" and p.ret[1] == "std::result::Result"):
                continue
            isok = p.ret[2] == "Ok"
            has_ok |= isok
            tests = {"zero": None, "gt1": None}
            for k, c in p.cons.items():
                if k[0] == "cmp" and c[0] == "eq":
                    if k[1] == "Eq" and any(o[0] == "c" and o[1] == 0 for o in (k[2], k[3])) and not any("len" in repr(conn.expand_all(interned, o)) for o in (k[2], k[3])):
                        tests["zero"] = (c[1] == 1)
                    if k[1] == "Lt" and k[2][0] == "c" and k[2][1] == 1 and "len" not in repr(conn.expand_all(interned, k[3])):
                        tests["gt1"] = (c[1] == 1)
            for t in ("zero", "gt1"):
                if not isok and tests[t] is True:
                    sig[t]["err_true"] = True
                if isok:
                    sig[t]["ok_n"] += 1
                    if tests[t] is not False:
                        sig[t]["ok_false"] = False
        return has_ok, {t for t in sig if sig[t]["err_true"] and sig[t]["ok_false"] and sig[t]["ok_n"] > 0}

    n_conc = n_atoms = 0
    for v in allv:
        if v not in props or props[v]["type"] not in ("byte", "u16", "u32", "vbi"):
            continue
        want = spec["forbidden_values"].get(v)
        pt = props[v]["type"]
        if pt == "vbi":
            probes = [0, 1, 127, 128, 16383, 16384, 268435455]
            top = 268435455
        else:
            top = (1 << (8 * WIDTH[pt])) - 1
            probes = [0, 1, 2, 3, top]
        allowed = lambda x: not ((want == "zero" and x == 0) or (want == "gt1" and x > 1))
        for fn in ("new", "parse"):
            path = "mqtt::packet::property::%s::%s" % (v, fn)
            key = "%s::%s" % (v, fn)
            if path not in F.fns:
                r2.violation(key, "constructor %s not found" % path)
                continue
            fobj = F.fns[path]
            pty = fobj["locals"][1] if fobj["argc"] >= 1 else ""
            if fn == "new" and pty in F.adts and F.adts[pty]["kind"] == "enum" and all(not x["fields"] for x in F.adts[pty]["variants"]):
                # value restricted by the parameter's type: a fieldless enum - every discriminant must be an allowed value
                badd = [x["name"] for x in F.adts[pty]["variants"] if not allowed(x.get("discr", 99))]
                if badd:
                    r2.violation(key, "%s takes %s whose variants %s are values the specification forbids" % (path, pty, badd))
                else:
                    r2.ok(key, "typed parameter %s" % pty.split("::")[-1])
                continue
            verdicts = {}
            for x in probes:
                if fn == "new":
                    def setup(ex, st, fr, x=x):
                        st.heap[(fr.root(1), ())] = ("c", x, pty)
                else:
                    bs = vbi_bytes(x) if pt == "vbi" else list(x.to_bytes(WIDTH[pt], "big"))
                    an = fobj.get("names", {}).get("1", "arg1")

                    def setup(ex, st, fr, bs=bs, an=an):
                        st.heap[(("arg", an), ())] = ("arr", tuple(("c", b_, "u8") for b_ in bs))
                verdicts[x] = evaluate(path, setup)
            if all(vd in ({"Ok"}, {"Err"}) for vd in verdicts.values()):
                n_conc += 1
                wrong = [(x, sorted(vd)[0]) for x, vd in sorted(verdicts.items()) if (vd == {"Ok"}) != allowed(x)]
                if wrong:
                    x, got_ = wrong[0]
                    r2.violation(key, "%s(%s%d) is %s; the specification %s this value of %s" % (
                        path, "bytes of " if fn == "parse" else "", x, "accepted" if got_ == "Ok" else "rejected",
                        "forbids" if got_ == "Ok" else "allows", v), site="%s:%s" % (fobj["file"], fobj["line"]))
                else:
                    r2.ok(key, {"evaluated_on": probes})
                continue
            # not decided concretely (an idiom the interpreter does not fold): the decision atoms of the paths
            n_atoms += 1
            has_ok, got = atoms_verdict(path)
            if not has_ok:
                r2.violation(key, "%s has no accepting path" % path)
            elif want is None and got:
                r2.violation(key, "%s rejects values (%s) the specification allows" % (path, sorted(got)))
            elif want is not None and want not in got:
                und = [x for x, vd in sorted(verdicts.items()) if vd not in ({"Ok"}, {"Err"})]
                r2.violation(key, "%s does not reject the forbidden values (%s) of %s on every accepting path (not decided on concrete inputs %s either)" % (path, want, v, und[:4]))
            else:
                r2.ok(key, sorted(got))
    run.cov_extra["value_constructors_evaluated_concretely"] = n_conc
    run.cov_extra["value_constructors_decided_by_path_atoms"] = n_atoms

    # ------------------------------------------------------------------ R3
    r3 = run.rule("C18-R3", "each location's validator is applied (and its error propagated) by both the builder and the parser", floor=14 * 2)
    RES = "std::result::Result"

    def propagated(entry, V, inline):
        """(accepting paths that applied V, those on which V's verdict was not required to be Ok, rejecting paths on V's Err)"""
        ex = explore.Explorer(F, inline_pred=inline)
        n_ok = n_bad = n_err = 0
        for p in ex.run(entry):
            if p.kind != "return" or not (p.ret and p.ret[0] == "agg" and p.ret[1] == RES):
                continue
            vc = [e for e in p.effects if e[0] == "call" and e[1] == V and e[4][0] == "sym"]
            if not vc:
                continue
            verdicts = [conn.possible(F, p, e[4][1], RES) for e in vc]
            if p.ret[2] == "Ok":
                n_ok += 1
                if any(v != {"Ok"} for v in verdicts):
                    n_bad += 1
            elif any(v == {"Err"} for v in verdicts):
                n_err += 1
        return n_ok, n_bad, n_err

    nv = conn.not_validator_inline(F)
    nvb = lambda ex, callee, info: (nv(ex, callee, info) or explore.default_inline(ex, callee, info)) and not conn.is_prop_validator(callee)
    for loc, V in sorted(LOC.items()):
        parse, build = packet_entries(F, loc)
        for k, entries, through, inline in (("parse", parse, None, nv), ("build", build, builder_through, nvb)):
            key = "%s/%s" % (loc, k)
            who = "parser" if k == "parse" else "builder"
            if V not in conn.validators_reached(F, entries, through=through):
                r3.violation(key, "%s is not applied on the %s path of its packet" % (V.split("::")[-1], who))
                continue
            tot = [0, 0, 0]
            try:
                for en in entries:
                    if F.fns[en].get("name") == "validate" and k == "build" and any(F.fns[x].get("name") == "build" for x in entries):
                        continue          # reached through build()
                    r = propagated(en, V, inline)
                    tot = [a + b for a, b in zip(tot, r)]
            except explore.ExploreError as e:
                r3.violation(key, "cannot explore the %s of %s: %s" % (who, loc, e))
                continue
            if tot[0] == 0:
                r3.violation(key, "no accepting %s path of %s applies %s" % (who, loc, V.split("::")[-1]))
            elif tot[1]:
                r3.violation(key, "the verdict of %s is ignored on %d accepting %s path(s) of %s" % (V.split("::")[-1], tot[1], who, loc))
            elif tot[2] == 0:
                r3.violation(key, "no %s path of %s fails when %s fails" % (who, loc, V.split("::")[-1]))
            else:
                r3.ok(key, {"accepting_paths_applying": tot[0], "rejecting_on_err": tot[2]})
