"""C08 - packet identifiers: released exactly once, announced, never leaked.

R1  release idiom: every pid_man.release_id(x) on every path is guarded by is_used_id(x) == true on the same
    manager value (no intervening write) and followed by NotifyPacketIdReleased(x); every
    NotifyPacketIdReleased(x) is preceded by release_id(x).  Documented shapes: send_stored (stored id,
    oversize drop) and clear_store_related (wholesale reset on a new session, unannounced).
R2  completion releases: every matched-acknowledgement path of PUBACK / PUBCOMP / SUBACK / UNSUBACK and the
    failing v5 PUBREC contains the idiom.
R3  refusal releases: every refusal of an id-carrying send other than PacketIdentifierInvalid contains the idiom.
R4  close drains: notify_closed empties pid_suback/pid_unsuback always and the publish sets when the session
    is not persistent, releasing through the idiom.
R5  totality of the id-management API: no path of acquire/register/release_packet_id (manager and allocator
    inlined) reaches a panic.
R6  who-may-call: release_id / register_id / clear of the manager are called only from GenericConnection.
"""
import conn
import modref

IS_USED = "PacketIdManager::<T>::is_used_id"
RELEASE = "PacketIdManager::<T>::release_id"


def idiom_events(p):
    """Ordered list of ('used?', mgr, x, truth) / ('release', mgr, x) / ('announce', x) along the path."""
    out = []
    for e in p.effects:
        if e[0] == "call" and e[1].endswith(IS_USED):
            c = p.cons.get(e[4][1])
            out.append(("used?", e[3][0], e[3][1], None if c is None or c[0] != "eq" else c[1] == 1, e[5]))
        elif e[0] == "call" and e[1].endswith(RELEASE):
            out.append(("release", e[3][0], e[3][1], None, e[5]))
        elif e[0] == "push" and conn.is_event(e[2], "NotifyPacketIdReleased"):
            out.append(("announce", None, e[2][3][0], None, e[3]))
    return out


def path_has_idiom_for(p, idv=None):
    """The path either proved the id unused or released it."""
    for k, mgr, x, truth, site in idiom_events(p):
        if idv is not None and x != idv:
            continue
        if k == "used?" and truth is False:
            return True
        if k == "release":
            return True
    return False


def check(run, F, tier):
    run.explanation = ("Release idiom, completion/refusal/close releases and totality of the id API evaluated on every abstract path "
                       "of every handler and public method (MIR path-sensitive exploration).")
    ms = conn.gc_methods(F)
    recvh = conn.handlers(F, "process_recv")
    sendh = conn.handlers(F, "process_send")
    entries = {f["name"]: f for f in list(recvh.values()) + list(sendh.values())}
    for n in ("notify_closed", "release_packet_id", "erase_stored_publish", "send_stored", "restore_packets", "clear_store_related"):
        if n in ms:
            entries[n] = ms[n]
    allp = {n: [p for p in conn.paths(F, f["path"])["paths"] if p.kind == "return"] for n, f in entries.items()}
    interned = {n: conn.paths(F, f["path"])["interned"] for n, f in entries.items()}

    # ------------------------------------------------------------------ R1
    r1 = run.rule("C08-R1", "release idiom: is_used_id guard -> release_id -> NotifyPacketIdReleased, and no announcement without release", floor=25)
    sites = {}
    for n, ps in sorted(allp.items()):
        for p in ps:
            evs = idiom_events(p)
            for i, (k, mgr, x, truth, site) in enumerate(evs):
                if k == "release":
                    skey = "%s@release#%s" % (n, conn.short(x)[:60])
                    guarded = any(k2 == "used?" and m2 == mgr and x2 == x and t2 is True for (k2, m2, x2, t2, s2) in evs[:i])
                    announced = any(k2 == "announce" and x2 == x for (k2, m2, x2, t2, s2) in evs[i + 1:])
                    rec = sites.setdefault(skey, {"ok": True, "why": None, "p": None, "site": site})
                    if ("::send_stored::" in site[0] or site[0].endswith("::send_stored")) and "'elem'" in repr(conn.expand_all(interned[n], x)):
                        # (the id of an element the store handed to its visitor - released in the visitor itself or after
                        # the walk, from a list of planned steps)
                        # stored packets hold their id by construction (C06): release-of-stored-id shape, must be announced
                        if not announced:
                            rec.update(ok=False, why="release of a stored id without announcement", p=p)
                        continue
                    if not guarded:
                        rec.update(ok=False, why="release_id not guarded by is_used_id==true on the same manager state", p=p)
                    elif not announced:
                        rec.update(ok=False, why="release_id not followed by NotifyPacketIdReleased of the same id", p=p)
                elif k == "announce":
                    skey = "%s@announce#%s" % (n, conn.short(x)[:60])
                    released = any(k2 == "release" and x2 == x for (k2, m2, x2, t2, s2) in evs[:i])
                    rec = sites.setdefault(skey, {"ok": True, "why": None, "p": None, "site": site})
                    if not released:
                        rec.update(ok=False, why="NotifyPacketIdReleased without a preceding release_id of the same id", p=p)
    for skey, rec in sorted(sites.items()):
        if rec["ok"]:
            r1.ok(skey)
        else:
            r1.violation(skey, "%s: %s" % (skey, rec["why"]), conn.path_summary(rec["p"]), site="%s:%s" % (rec["site"][0].split("::")[-1], rec["site"][1]))

    # ------------------------------------------------------------------ R2
    r2 = run.rule("C08-R2", "matched acknowledgements complete the exchange and release the id", floor=7)
    for (ver, kind), f in sorted(recvh.items()):
        if kind not in ("puback", "pubcomp", "suback", "unsuback", "pubrec"):
            continue
        bad = None
        cnt = 0
        for p in allp[f["name"]]:
            rem = [e for e in p.effects if e[0] == "call" and e[1].endswith("HashSet::<T, S, A>::remove") and "pid_" in repr(e[3][0])]
            if not rem:
                continue
            c = p.cons.get(rem[0][4][1])
            if c != ("eq", 1):
                continue
            idv = rem[0][3][1]
            if kind == "pubrec":
                if ver == "v3_1_1":
                    continue
                # only the failing-reason-code path ends the exchange: recognised by a decrement / release branch
                w = conn.word(p) or []
                if "RequestSendPacket" in w:
                    continue
                # path where the reason code is not success: must release
                rc = [e for e in p.effects if e[0] == "call" and e[1].endswith("::reason_code")]
                succ = False
                for e in rc:
                    # Option<PubrecReasonCode>: None or Some(Success) continue the exchange
                    o = conn.possible(F, p, e[4][1], "std::option::Option")
                    if o == {"None"}:
                        succ = True
                    for k2, c2 in p.cons.items():
                        if k2[0] in ("discr", "enum_eq") and "PubrecReasonCode" in repr(k2) and c2[0] == "eq":
                            dom = conn.enum_domain(F, "mqtt::result_code::PubrecReasonCode")
                            if dom.get(c2[1], "") in ("Success",) and k2[0] == "discr":
                                succ = True
                for _, e in conn.calls(p, "::is_success"):
                    if conn.truth(p, e) is True:
                        succ = True
                for _, e in conn.calls(p, "::is_failure"):
                    if conn.truth(p, e) is False:
                        succ = True
                if succ:
                    continue
            cnt += 1
            if not path_has_idiom_for(p, idv):
                bad = p
        key = f["name"]
        if cnt == 0 and kind != "pubrec":
            r2.violation(key, "no matched-acknowledgement path found in %s" % key)
        elif bad:
            r2.violation(key, "%s: a matched acknowledgement path neither releases the id nor proves it unused" % key, conn.path_summary(bad),
                         site="%s:%s" % (f["file"], f["line"]))
        else:
            r2.ok(key, {"matched_paths": cnt})

    # ------------------------------------------------------------------ R3
    r3 = run.rule("C08-R3", "a refused id-carrying send releases the id (except PacketIdentifierInvalid)", floor=5)
    for (ver, kind), f in sorted(sendh.items()):
        if kind not in ("publish", "subscribe", "unsubscribe"):
            continue
        bad = {}
        cnt = 0
        for p in allp[f["name"]]:
            w = conn.word(p) or []
            errs = [x for x in w if x.startswith("NotifyError(")]
            if not errs or errs == ["NotifyError(PacketIdentifierInvalid)"]:
                continue
            if kind == "publish":
                qt = [e for e in p.effects if e[0] == "call" and e[1].endswith("::qos")]
                if qt and conn.possible(F, p, qt[0][4][1], "mqtt::packet::qos::Qos") == {"AtMostOnce"}:
                    continue
                pid = [e for e in p.effects if e[0] == "call" and e[1].endswith("::packet_id")]
                if pid and conn.possible(F, p, pid[0][4][1], "std::option::Option") == {"None"}:
                    continue
            cnt += 1
            if not path_has_idiom_for(p):
                bad.setdefault(",".join(errs), p)
        key = f["name"]
        if bad:
            for errs, p in sorted(bad.items()):
                r3.violation("%s/%s" % (key, errs), "%s: refusal %s keeps the packet identifier (no release, no is_used_id==false)" % (key, errs),
                             conn.path_summary(p), site="%s:%s" % (f["file"], f["line"]))
        elif cnt == 0:
            r3.violation(key, "no refusal path found in %s" % key)
        else:
            r3.ok(key, {"refusal_paths": cnt})

    # ------------------------------------------------------------------ R4
    r4 = run.rule("C08-R4", "notify_closed drains the pending-id sets through the release idiom", floor=5)
    N = modref.Norm(F)
    pv = N.post_values(ms["notify_closed"]["path"])
    for fld, cond in (("pid_suback", None), ("pid_unsuback", None), ("pid_puback", False), ("pid_pubrec", False), ("pid_pubcomp", False)):
        bad = None
        released = False
        for p, cur in pv:
            if cond is not None and conn.bool_field_at_entry(F, p, "need_store") != {cond}:
                continue
            if cur[fld] != ("EMPTY",):
                bad = (p, cur[fld])
            evs_ = idiom_events(p)
            for k, mgr, x, truth, site in evs_:
                if k == "release" and fld in repr(conn.expand_all(interned["notify_closed"], x)):
                    released = True
            # every id actually drained from the set on this path goes through the is_used_id guard: an element that is
            # drawn (the iterator yielded Some / the per-element closure ran) and then dropped under some other condition
            # (role, version, ...) leaks its identifier
            drawn = False
            for e in p.effects:
                if e[0] == "call" and e[1].endswith("::next") and fld in repr(conn.expand_all(interned["notify_closed"], e[3])) \
                        and e[4][0] == "sym" and conn.possible(F, p, e[4][1], "std::option::Option") == {"Some"}:
                    drawn = True
                if e[0] == "enter" and len(e) > 2 and fld in repr(conn.expand_all(interned["notify_closed"], e[2])) and "elem" in repr(e[2]):
                    drawn = True
            consulted = any(k == "used?" and fld in repr(conn.expand_all(interned["notify_closed"], x)) for k, mgr, x, truth, site in evs_)
            if drawn and not consulted and bad is None:
                bad = (p, "drained; an element is dropped without asking the id manager (identifier leaked)")
        if bad:
            r4.violation(fld, "notify_closed leaves %s as %s" % (fld, bad[1]), conn.path_summary(bad[0]))
        elif not released:
            r4.violation(fld + "/release", "notify_closed never releases an id drained from %s" % fld)
        else:
            r4.ok(fld)

    # ------------------------------------------------------------------ R5
    r5 = run.rule("C08-R5", "id-management calls are total (no reachable panic for any id value)", floor=3)
    for n in ("acquire_packet_id", "register_packet_id", "release_packet_id"):
        f = ms[n]
        res = conn.paths(F, f["path"], tag="ids")
        bad = None
        cnt = 0
        for p in res["paths"]:
            cnt += 1
            if p.kind != "diverge":
                continue
            calls = [e for e in p.effects if e[0] == "call"]
            last = calls[-1] if calls else None
            bad = (p, last[1] if last else "?")
        if bad:
            r5.violation(n, "%s can reach a panic (%s) for some id value" % (n, bad[1].split("::")[-1]), conn.path_summary(bad[0]),
                         site="%s:%s" % (f["file"], f["line"]))
        else:
            r5.ok(n, {"paths": cnt})

    # ------------------------------------------------------------------ R6
    r6 = run.rule("C08-R6", "only GenericConnection calls release_id/register_id/clear/acquire of the id manager", floor=4)
    callers = {}
    for f in F.fns.values():
        for b in f["blocks"]:
            t = b["term"]
            if t["k"] == "call" and "fn" in t["func"].get("const", {}):
                fi = t["func"]["const"]["fn"]
                if fi.get("impl_self", "").startswith("mqtt::connection::packet_id_manager::PacketIdManager<"):
                    callers.setdefault(fi["name"], set()).add(f.get("impl_self", f.get("parent", "?")).split("<")[0] if f.get("kind") != "Closure" else "closure:" + f.get("parent", "?").split("::<")[0])
    for m, cs in sorted(callers.items()):
        outside = {c for c in cs if not (c.startswith(conn.GC_ADT) or c.startswith("closure:" + conn.GC_ADT))}
        if outside and m != "new":
            r6.violation(m, "PacketIdManager::%s is called from %s" % (m, sorted(outside)))
        else:
            r6.ok(m, sorted(cs))
    conn.prune_path_cache(F)
