"""C03 - wire format matches the MQTT specification (tables only; value-level encodings are not decided).

R1  constants (exact): evaluated discriminants of PacketType, FixedHeader, PropertyId, Qos, RetainHandling,
    PayloadFormat, Version, the v3.1.1 return codes and all v5.0 reason-code enums equal the specification
    tables in both directions (no missing, no extra, value and name); MqttError's 0x80..0xA2 range;
    From<MqttError> for DisconnectReasonCode preserves the wire value; is_success/is_failure is the
    partition "wire value < 0x80".
R2  property data types (exact): value field type of each property struct equals the specification's data
    type; id() returns its own PropertyId; Property::parse dispatches identifier X to X::parse and wraps
    it in variant X.
R3  fixed header per kind: build() and parse() of every packet store the FixedHeader constant of their own
    kind; PUBLISH flag accessors and builder setters use the specified (mask, shift) pairs.
R4  layout signature: per packet kind the sequence of field types written by to_continuous_buffer (all
    optional parts present) equals the specification's order.
R5  big-endian API only: no *_le_* / *_ne_* / swap_bytes call under mqtt::packet.
"""
import json
import os
import re

import conn
import explore
import serial
from report import VERIF

RC = "mqtt::result_code::"


def nrm(s):
    return re.sub(r"[^a-z0-9]", "", s.lower())


def build_default(f, fidx):
    """The constant `build()` substitutes for an unset one-byte field: `self.<field>.unwrap_or([K])` -> K, else None."""
    defs = {}
    for b in f["blocks"]:
        for st in b["stmts"]:
            if st.get("k") == "assign" and not st["lhs"].get("p"):
                defs.setdefault(st["lhs"]["l"], []).append(st["rv"])
    for b in f["blocks"]:
        t = b["term"]
        if t["k"] != "call" or t["func"].get("const", {}).get("fn", {}).get("name") != "unwrap_or" or len(t["args"]) != 2:
            continue
        a0 = t["args"][0].get("move") or t["args"][0].get("copy")
        a1 = t["args"][1].get("move") or t["args"][1].get("copy")
        if not a0 or not a1:
            continue
        src = [rv for rv in defs.get(a0["l"], []) if rv.get("k") == "use" and (rv["op"].get("copy") or rv["op"].get("move") or {}).get("p")
               and any(pe.get("f") == fidx for pe in (rv["op"].get("copy") or rv["op"].get("move"))["p"] if isinstance(pe, dict))]
        if not src:
            continue
        for rv in defs.get(a1["l"], []):
            if rv.get("k") == "agg" and len(rv.get("ops", [])) == 1 and "const" in rv["ops"][0] and "bits" in rv["ops"][0]["const"]:
                return rv["ops"][0]["const"]["bits"]
    return None


def u8_constants(fns):
    out = {0}

    def walk(x):
        if isinstance(x, dict):
            c = x.get("const")
            if isinstance(c, dict) and c.get("ty") == "u8" and isinstance(c.get("bits"), int):
                out.add(c["bits"])
            for v in x.values():
                walk(v)
        elif isinstance(x, list):
            for v in x:
                walk(v)
    for f in fns:
        walk(f["blocks"])
    return out


def check_builder_defaults(run, F):
    """R6: a builder keeps a flags byte as `Option<[u8; 1]>`; a setter that finds it unset substitutes a default before
    changing its own bits, and so does `build()`.  All of them must mean the same default: there is one value D such that
    every setter, evaluated on an untouched builder, leaves the byte it leaves on a builder holding `Some([D])` (and D is
    the constant `build()` substitutes, where that can be read off its body).  Otherwise the byte on the wire depends on
    the order in which the application called the setters (password() before user_name() clearing Clean Session)."""
    import explore
    r6 = run.rule("C03-R6", "builder setters of a defaulted flags byte agree on one default (build()'s)", floor=4)
    OPT = "std::option::Option"
    n = 0
    inl = lambda ex, callee, info: callee.get("kind") == "Closure" or explore.small_private_helper(callee) or \
        (callee.get("kind") == "AssocFn" and not callee.get("pub") and "Builder" in (callee.get("impl_self") or "") and len(callee["blocks"]) <= 40)
    for bpath, adt in sorted(F.adts.items()):
        if not (bpath.startswith("mqtt::packet::") and bpath.split("<")[0].endswith("Builder") and adt.get("kind") == "struct"):
            continue
        flds = [f for f in adt["variants"][0]["fields"] if f["ty"].replace(" ", "") == "std::option::Option<[u8;1]>"]
        if not flds:
            continue
        meths = [f for f in F.fns.values() if f.get("impl_self", "").split("<")[0] == bpath.split("<")[0] and f.get("kind") == "AssocFn"]
        build = [f for f in meths if f.get("name") == "build"]
        if not build:
            continue
        for fld in flds:
            d_build = build_default(build[0], fld["i"])
            cands = sorted(u8_constants(meths)) if d_build is None else [d_build]
            setters = [m for m in sorted(meths, key=lambda f: f["path"])
                       if m.get("pub") and m.get("name") not in ("build", "validate", "new", "default") and m["locals"][1].split("<")[0].endswith("Builder")]

            def result(m, init):
                def setup(ex, st, fr):
                    st.heap[(fr.root(1), (("f", fld["i"], fld["name"]),))] = init
                ex = explore.Explorer(F, inline_pred=inl)
                res = set()
                wrote = False
                try:
                    ps = ex.run(m["path"], setup=setup)
                except explore.ExploreError:
                    return {"?"}, True
                for p in ps:
                    if p.kind != "return":
                        continue
                    work = [conn.expand_all(ex.interned_rev, p.ret)] if p.ret else []
                    while work:
                        x = work.pop()
                        if isinstance(x, tuple) and x and x[0] == "agg":
                            if x[1].split("<")[0] == bpath.split("<")[0] and len(x[3]) > fld["i"]:
                                if x[3][fld["i"]] != init:
                                    wrote = True
                                res.add(conn.short(x[3][fld["i"]])[:120])
                                break
                            work.extend(x[3])
                return res, wrote
            none = ("agg", OPT, "None", ())
            on_none = {}
            for m in setters:
                r0, w0 = result(m, none)
                if w0:
                    on_none[m["path"]] = (m, r0)
            if not on_none:
                continue          # no setter touches this byte
            n += 1
            key = "%s/%s" % (bpath.replace("mqtt::packet::", ""), fld["name"])
            agree = None
            worst = None
            for d in cands:
                some = ("agg", OPT, "Some", (("arr", (("c", d, "u8"),)),))
                bad = [(m["name"], sorted(r0), sorted(result(m, some)[0])) for (m, r0) in on_none.values() if "?" in r0 or result(m, some)[0] != r0]
                if not bad:
                    agree = d
                    break
                if worst is None or len(bad) < len(worst[1]):
                    worst = (d, bad)
            if agree is not None:
                r6.ok(key, {"default": agree, "from_build": d_build is not None, "setters": sorted(m["name"] for m, _ in on_none.values())})
            else:
                d, bad = worst
                r6.violation(key, "%s: the setters of %s do not start from one default: taking %s [%d], %s on an untouched builder leaves %s but on a builder holding "
                             "[%d] it leaves %s (the encoded byte depends on the order of the setter calls)"
                             % (bpath.split("::")[-1], fld["name"], "build()'s default" if d_build is not None else "the closest candidate", d,
                                bad[0][0], bad[0][1], d, bad[0][2]), site="%s:%s" % (build[0]["file"], build[0]["line"]))
    if n == 0:
        r6.violation("anchor", "no builder with a defaulted flags byte found (anchor lost)")


def only_first_byte_used(f, call):
    """Is the array a call returns read only through its element 0 (and never borrowed, moved or passed on)?"""
    d = call.get("dest") or {}
    if d.get("p"):
        return False
    L = d.get("l")
    uses = []

    def walk(x, own):
        if isinstance(x, dict):
            if x.get("l") == L and "p" in x and not (own and x is d):
                uses.append(x["p"])
            for v in x.values():
                walk(v, own)
        elif isinstance(x, list):
            for v in x:
                walk(v, own)
    for b in f["blocks"]:
        walk(b["stmts"], False)
        walk(b["term"], b["term"] is call)
    return bool(uses) and all(len(p) == 1 and isinstance(p[0], dict) and p[0].get("ci") == 0 and not p[0].get("fe") for p in uses)


def check(run, F, tier):
    run.explanation = ("Every table the wire format is built from is extracted from the compiled program (evaluated enum "
                       "discriminants, struct field types, match tables from MIR, serialiser field order) and compared with the "
                       "transcribed OASIS tables. A symmetric error (same wrong constant used by encoder and decoder) is visible "
                       "here and invisible to any round-trip check.")
    spec = json.load(open(os.path.join(VERIF, "spec", "wire_constants.json")))
    pspec = json.load(open(os.path.join(VERIF, "spec", "properties.json")))
    r1 = run.rule("C03-R1", "numeric constants equal the specification tables", floor=200, kind="E")
    for en, table in sorted(spec["enums"].items()):
        d = F.discr_map(RC + en)
        want = {int(k): v for k, v in table.items()}
        got = {v: k for k, v in d.items()}
        for val, name in sorted(want.items()):
            key = "%s/0x%02x" % (en, val)
            if val not in got:
                r1.violation(key, "%s lacks the value 0x%02x (%s)" % (en, val, name))
            elif nrm(got[val]) != nrm(name):
                r1.violation(key, "%s: value 0x%02x is named %s, the specification calls it '%s'" % (en, val, got[val], name))
            else:
                r1.ok(key, got[val])
        for val, name in sorted(got.items()):
            if val not in want:
                r1.violation("%s/extra/0x%02x" % (en, val), "%s::%s = 0x%02x is not a value the specification defines for this packet" % (en, name, val))
    # packet types and fixed headers
    pt = F.discr_map("mqtt::packet::packet_type::PacketType")
    fh = F.discr_map("mqtt::packet::packet_type::FixedHeader")
    for name, val in sorted(spec["packet_type"].items()):
        if pt.get(name) == val:
            r1.ok("PacketType/" + name, val)
        else:
            r1.violation("PacketType/" + name, "PacketType::%s = %s, specification: %d" % (name, pt.get(name), val))
        want = (val << 4) | spec["fixed_header_flags"][name]
        if fh.get(name) == want:
            r1.ok("FixedHeader/" + name, hex(want))
        else:
            r1.violation("FixedHeader/" + name, "FixedHeader::%s = %s, specification: 0x%02x (type %d, reserved flags %d)" % (
                name, fh.get(name), want, val, spec["fixed_header_flags"][name]))
    for extra in set(pt) - set(spec["packet_type"]):
        r1.violation("PacketType/extra/" + extra, "PacketType::%s is not a control packet type" % extra)
    for extra in set(fh) - set(spec["packet_type"]):
        r1.violation("FixedHeader/extra/" + extra, "FixedHeader::%s is not a control packet type" % extra)
    for adt, tab in (("mqtt::packet::qos::Qos", "qos"), ("mqtt::packet::retain_handling::RetainHandling", "retain_handling"),
                     ("mqtt::packet::property::PayloadFormat", "payload_format")):
        d = F.discr_map(adt)
        if d == spec[tab]:
            r1.ok(adt.split("::")[-1], d)
        else:
            r1.violation(adt.split("::")[-1], "%s = %s, specification %s" % (adt, d, spec[tab]))
    vd = F.discr_map(conn.VERSION)
    if all(vd.get(k) == v for k, v in spec["version"].items()):
        r1.ok("Version", vd)
    else:
        r1.violation("Version", "protocol level constants %s, specification %s" % (vd, spec["version"]))
    pid = F.discr_map("mqtt::packet::property::PropertyId")
    for name, meta in sorted(pspec["properties"].items()):
        if pid.get(name) == meta["id"]:
            r1.ok("PropertyId/" + name, meta["id"])
        else:
            r1.violation("PropertyId/" + name, "PropertyId::%s = %s, specification: %d" % (name, pid.get(name), meta["id"]))
    for extra in set(pid) - set(pspec["properties"]):
        r1.violation("PropertyId/extra/" + extra, "PropertyId::%s is not defined by the specification" % extra)
    # MqttError wire range
    me = F.discr_map(conn.MQTTERR)
    for val, name in sorted((int(k), v) for k, v in spec["error_range"].items()):
        got = [n for n, d in me.items() if d == val]
        if got and nrm(got[0]) == nrm(name):
            r1.ok("MqttError/0x%02x" % val, got[0])
        else:
            r1.violation("MqttError/0x%02x" % val, "MqttError value 0x%02x is %s, specification name '%s'" % (val, got, name))
    # From<MqttError> for DisconnectReasonCode
    fpath = [f for f in F.fns.values() if f.get("name") == "from" and f.get("impl_self") == RC + "DisconnectReasonCode"
             and f.get("impl_trait_ref", "").endswith("From<%sMqttError>" % RC)]
    if len(fpath) != 1:
        r1.violation("From<MqttError>", "conversion MqttError -> DisconnectReasonCode not found")
    else:
        res = conn.paths(F, fpath[0]["path"])
        dd = F.discr_map(RC + "DisconnectReasonCode")
        seen = 0
        for p in res["paths"]:
            if p.kind != "return" or not (p.ret and p.ret[0] == "agg"):
                continue
            for k, c in p.cons.items():
                if k[0] == "discr" and k[2] == conn.MQTTERR and c[0] == "eq":
                    seen += 1
                    src = F.variant_by_discr(conn.MQTTERR, c[1])
                    if src is None:
                        src = {"name": "?%s" % c[1]}
                    if dd.get(p.ret[2]) == (c[1] & 0xFF) and c[1] < 0x100:
                        r1.ok("From<MqttError>/" + src["name"], p.ret[2])
                    else:
                        r1.violation("From<MqttError>/" + src["name"], "MqttError::%s (0x%x) converts to DisconnectReasonCode::%s (0x%x)" % (
                            src["name"], c[1], p.ret[2], dd.get(p.ret[2], -1)))
        if seen < 20:
            r1.violation("From<MqttError>/table", "conversion table not extracted (%d arms)" % seen)
    # is_success / is_failure partitions
    for f in F.fns.values():
        if f.get("name") in ("is_success", "is_failure") and f.get("impl_self", "").startswith(RC) and f["impl_self"] in F.adts:
            adt = f["impl_self"]
            exs = explore.Explorer(F, inline_pred=lambda ex, callee, info: callee.get("name") == "is_success")
            dm = {d: n for n, d in F.discr_map(adt).items()}
            got = {}
            # evaluated per variant on a concrete receiver: whatever the predicate's spelling (match table, ==, matches!,
            # numeric test on the discriminant, delegation to the sibling predicate) the abstract run folds to a constant
            for n in dm.values():
                def setup(exx, st, fr, n=n):
                    st.heap[(("self",), ())] = ("agg", adt, n, ())
                exv = explore.Explorer(F, inline_pred=lambda ex, callee, info: callee.get("name") in ("is_success", "is_failure") or
                                       (callee.get("impl_self", "") == adt and len(callee["blocks"]) <= 12))
                for p in exv.run(f["path"], setup=setup):
                    if p.kind == "return" and p.ret and p.ret[0] == "c":
                        got.setdefault(n, set()).add(p.ret[1] == 1)
                    elif p.kind == "return":
                        got.setdefault(n, set()).add(None)
            bad = []
            for d, n in dm.items():
                succ = (d == 0) if adt.endswith("ConnectReturnCode") else (d < 0x80)   # v3.1.1 CONNACK: only 0 accepts
                want = succ if f["name"] == "is_success" else (not succ)
                if got.get(n) != {want}:
                    bad.append("%s(0x%02x)->%s" % (n, d, sorted(got.get(n, []))))
            key = "%s::%s" % (adt.split("::")[-1], f["name"])
            if bad:
                r1.violation(key, "%s is not the partition 'wire value %s 0x80': %s" % (key, "<" if f["name"] == "is_success" else ">=", bad[:6]))
            else:
                r1.ok(key, {"variants": len(dm)})

    # ------------------------------------------------------------------ R2
    r2 = run.rule("C03-R2", "property data types, id() and Property::parse dispatch equal the specification table", floor=81, kind="E")
    tymap = {"byte": "[u8; 1]", "u16": "[u8; 2]", "u32": "[u8; 4]", "vbi": "mqtt::packet::variable_byte_integer::VariableByteInteger",
             "utf8": "mqtt::packet::mqtt_string::MqttString", "binary": "mqtt::packet::mqtt_binary::MqttBinary",
             "pair": "(mqtt::packet::mqtt_string::MqttString, mqtt::packet::mqtt_string::MqttString)"}
    PROPMOD = "mqtt::packet::property::"
    for name, meta in sorted(pspec["properties"].items()):
        a = F.adts.get(PROPMOD + name)
        if not a:
            r2.violation("type/" + name, "property struct %s not found" % name)
            continue
        vt = [f["ty"] for f in a["variants"][0]["fields"] if f["name"] == "value"]
        if vt == [tymap[meta["type"]]]:
            r2.ok("type/" + name, vt[0])
        else:
            r2.violation("type/" + name, "%s stores its value as %s; the specification's data type is %s (%s)" % (name, vt, meta["type"], tymap[meta["type"]]))
        idf = F.fns.get(PROPMOD + name + "::id")
        if idf:
            res = conn.paths(F, idf["path"])
            rets = {p.ret for p in res["paths"] if p.kind == "return"}
            if rets == {("agg", PROPMOD + "PropertyId", name, ())}:
                r2.ok("id/" + name)
            else:
                r2.violation("id/" + name, "%s::id() returns %s" % (name, [conn.short(r) for r in rets]))
        else:
            r2.violation("id/" + name, "%s::id not found" % name)
    # Property::parse dispatch
    pp = F.fns.get(PROPMOD + "Property::parse")
    if not pp:
        r2.violation("dispatch", "Property::parse not found")
    else:
        ex = explore.Explorer(F)
        ps = ex.run(pp["path"])
        disp = {}
        for p in ps:
            if p.kind != "return":
                continue
            idv = None
            for k, c in p.cons.items():
                if k[0] == "discr" and k[2] == PROPMOD + "PropertyId" and c[0] == "eq":
                    idv = F.variant_by_discr(PROPMOD + "PropertyId", c[1])["name"]
            if idv is None:
                continue
            parsers = [e[1].split("::")[-2] for e in p.effects if e[0] == "call" and e[1].startswith(PROPMOD) and e[1].endswith("::parse")]
            r = p.ret
            wrapped = None
            if r and r[0] == "agg" and r[2] == "Ok":
                s = repr(conn.expand_all(ex.interned_rev, r))
                m = re.search(r"'agg', '%sProperty', '(\w+)'" % re.escape(PROPMOD), s)
                wrapped = m.group(1) if m else None
                disp.setdefault(idv, set()).add((tuple(parsers), wrapped))
        for name in sorted(pspec["properties"]):
            got = disp.get(name, set())
            if got == {((name,), name)}:
                r2.ok("dispatch/" + name)
            else:
                r2.violation("dispatch/" + name, "Property::parse for identifier %s calls/wraps %s" % (name, sorted(got)))

    # ------------------------------------------------------------------ R5
    r5 = run.rule("C03-R5", "no little/native-endian conversion under mqtt::packet", floor=1)
    bad = []
    n = 0
    for f in F.fns.values():
        if not (f["path"].startswith("mqtt::packet::") or "src/mqtt/packet/" in (f.get("file") or "")):
            continue          # (trait impls for foreign types - `<u16 as IsPacketId>::to_buffer` - are found by their file)
        for b in f["blocks"]:
            t = b["term"]
            if t["k"] == "call" and "fn" in t["func"].get("const", {}):
                n += 1
                nm = t["func"]["const"]["fn"]["name"]
                if nm in ("to_le_bytes", "from_le_bytes", "to_ne_bytes", "from_ne_bytes", "swap_bytes", "to_le", "from_le"):
                    if nm == "to_le_bytes" and only_first_byte_used(f, t):
                        continue        # `let [low, ..] = x.to_le_bytes()`: the truncation `x as u8`, no byte order involved
                    bad.append("%s:%s %s" % (f["file"], t.get("line"), nm))
    if bad:
        for b in bad:
            r5.violation(b.split(" ")[1] + "@" + b.split(":")[0], "non-big-endian conversion in the codec: %s" % b)
    else:
        r5.ok("scan", {"call_sites_scanned": n})

    check_builder_defaults(run, F)

    # ------------------------------------------------------------------ R3
    r3 = run.rule("C03-R3", "each packet stores its own kind's fixed header; PUBLISH flag masks/shifts as specified", floor=29 * 2 + 6)
    kinds = {}
    for path, a in F.adts.items():
        m = re.match(r"^mqtt::packet::(v3_1_1|v5_0)::(\w+)::(Generic)?(\w+)$", path)
        if m and a["kind"] == "struct" and m.group(2) == m.group(4).lower() and any(f["name"] == "fixed_header" for f in a["variants"][0]["fields"]):
            kinds[path] = (m.group(1), m.group(4))
    fhadt = "mqtt::packet::packet_type::FixedHeader"
    for path, (ver, kind) in sorted(kinds.items()):
        for fn in ("parse", "build"):
            cands = [f for f in F.fns.values() if f.get("name") == fn and (
                f.get("impl_self", "").split("<")[0] == path if fn == "parse" else f.get("impl_self", "").split("<")[0] == path + "Builder")]
            key = "%s::%s/%s" % (ver, kind, fn)
            if not cands:
                r3.violation(key, "%s::%s not found" % (path, fn))
                continue
            f = cands[0]
            # every construction of the packet struct in this function takes its fixed_header from FixedHeader::<Kind>
            found = []
            # the function itself and the private helpers of the same module it calls (e.g. a shared `from_parts`)
            todo, seen_c = [f], {f["path"]}
            while todo:
                g = todo.pop()
                for b in g["blocks"]:
                    for s in b["stmts"]:
                        if s["k"] == "assign" and s["rv"]["k"] == "agg" and s["rv"].get("adt") == path:
                            idx = s["rv"]["fields"].index("fixed_header")
                            found.append(trace_fixed_header(F, g, s["rv"]["ops"][idx]))
                    t = b["term"]
                    if t["k"] == "call" and "fn" in t["func"].get("const", {}):
                        fi = t["func"]["const"]["fn"]
                        cp = (fi.get("res") or {}).get("path", fi["path"])
                        h = F.fns.get(cp)
                        if h is not None and cp not in seen_c and not h.get("pub") and h.get("file") == f.get("file") and h.get("kind") in ("Fn", "AssocFn"):
                            seen_c.add(cp)
                            todo.append(h)
            delegated = any(b["term"]["k"] == "call" and b["term"]["func"].get("const", {}).get("fn", {}).get("path", "").endswith("Builder::build")
                            and path.split("::")[-1].replace("Generic", "") in b["term"]["func"]["const"]["fn"]["path"] for b in f["blocks"])
            if not found and delegated:
                r3.ok(key, "delegates to the builder")
            elif not found:
                r3.violation(key, "no construction of %s found in %s" % (path, f["path"]))
            elif all(x == kind for x in found):
                r3.ok(key, kind)
            else:
                r3.violation(key, "%s builds its fixed header from FixedHeader::%s, expected FixedHeader::%s" % (f["path"], found, kind),
                             site="%s:%s" % (f["file"], f["line"]))
    # PUBLISH flag accessors
    for ver in ("v3_1_1", "v5_0"):
        base = "mqtt::packet::%s::publish::GenericPublish::<PacketIdType>::" % ver
        for acc, meta in sorted(spec["publish_flags"].items()):
            f = F.fns.get(base + acc)
            key = "%s::publish::%s" % (ver, acc)
            if not f:
                r3.violation(key, "accessor %s not found" % acc)
                continue
            consts = set()
            # the accessor itself and the private helpers it delegates to (e.g. a shared qos_from_flags())
            bodies, seen_b = [f], {f["path"]}
            while bodies:
                g = bodies.pop()
                for b in g["blocks"]:
                    for s in b["stmts"]:
                        if s["k"] == "assign" and s["rv"]["k"] == "bin" and s["rv"]["op"] in ("BitAnd", "Shr", "Shl"):
                            for o in (s["rv"]["a"], s["rv"]["b"]):
                                if "const" in o and "bits" in o["const"]:
                                    consts.add((s["rv"]["op"], o["const"]["bits"]))
                    t = b["term"]
                    if t["k"] == "call" and "fn" in t["func"].get("const", {}):
                        fi = t["func"]["const"]["fn"]
                        cp = (fi.get("res") or {}).get("path", fi["path"])
                        h = F.fns.get(cp)
                        if h is not None and cp not in seen_b and not h.get("pub") and h["path"].startswith("mqtt::packet::%s::publish::" % ver):
                            seen_b.add(cp)
                            bodies.append(h)
            want = {("BitAnd", meta["mask"] >> meta["shift"] if acc == "qos" else meta["mask"])}
            if acc == "qos":
                want.add(("Shr", meta["shift"]))
            if consts == want:
                r3.ok(key, sorted(consts))
            else:
                r3.violation(key, "%s uses %s, the specification's mask/shift is %s" % (key, sorted(consts), sorted(want)))

    # PUBLISH flag setters: every method of the packet that assigns fixed_header (in place or as a whole) is *evaluated* on all
    # sixteen PUBLISH header bytes x all argument values: the packet-type nibble must survive, and set_dup must set / clear
    # exactly the DUP bit of the specification - whatever the spelling (`|=`, `&= !`, a match producing a new array ...)
    import explore as _ex
    for ver in ("v3_1_1", "v5_0"):
        base = "mqtt::packet::%s::publish::GenericPublish::<PacketIdType>::" % ver
        adt = F.adts.get("mqtt::packet::%s::publish::GenericPublish" % ver)
        fi = [i for i, x in enumerate(adt["variants"][0]["fields"]) if x["name"] == "fixed_header"] if adt else []
        nset = 0
        for pth, f in sorted(F.fns.items()):
            if not pth.startswith(base) or f.get("kind") != "AssocFn" or f.get("names", {}).get("1") != "self":
                continue
            writes = any(s_["k"] == "assign" and any(isinstance(el, dict) and el.get("n") == "fixed_header" for el in s_["lhs"]["p"])
                         for b_ in f["blocks"] for s_ in b_["stmts"])
            if not writes or not fi:
                continue
            nset += 1
            byref = f["locals"][1].startswith("&")
            doms = []
            for i in range(2, f["argc"] + 1):
                ty = f["locals"][i]
                if ty == "bool":
                    doms.append([("c", 0, "bool"), ("c", 1, "bool")])
                elif ty in F.adts and F.adts[ty].get("kind") == "enum" and all(not v_["fields"] for v_ in F.adts[ty]["variants"]):
                    doms.append([("agg", ty, v_["name"], ()) for v_ in F.adts[ty]["variants"]])
                else:
                    doms = None
                    break
            key0 = "%s::publish::%s" % (ver, f["name"])
            if doms is None:
                r3.violation(key0, "%s rewrites fixed_header but takes an argument that cannot be enumerated (%s): not evaluated" % (key0, f["locals"][2:f["argc"] + 1]))
                continue
            import itertools
            dm = spec["publish_flags"]["dup"]["mask"]
            bad = None
            nev = 0
            for h in range(0x30, 0x40):
                for argv in itertools.product(*doms):
                    def setup(ex, st, fr, h=h, argv=argv):
                        root = ("self",) if byref else fr.root(1)
                        st.heap[(root, (("f", fi[0], "fixed_header"),))] = ("arr", (("c", h, "u8"),))
                        for j, av in enumerate(argv):
                            st.heap[(fr.root(2 + j), ())] = av
                    exq = _ex.Explorer(F)
                    try:
                        ps = [p_ for p_ in exq.run(pth, setup=setup) if p_.kind == "return"]
                    except _ex.ExploreError as e:
                        bad = "cannot be evaluated (%s)" % e
                        break
                    for p_ in ps:
                        if byref:
                            hv = p_.heap.get((("self",), (("f", fi[0], "fixed_header"),)))
                        else:
                            hv = p_.ret[3][fi[0]] if (p_.ret and p_.ret[0] == "agg" and len(p_.ret[3]) > fi[0]) else None
                        out = hv[1][0] if (hv and hv[0] == "arr" and len(hv[1]) == 1) else None
                        nev += 1
                        if not (out and out[0] == "c"):
                            bad = "header 0x%02x, args %s: resulting header byte is not decided" % (h, [a_[1] if a_[0] == "c" else a_[2] for a_ in argv])
                        elif (out[1] & 0xF0) != 0x30:
                            bad = "header 0x%02x, args %s: the packet-type nibble becomes 0x%x_" % (h, [a_[1] if a_[0] == "c" else a_[2] for a_ in argv], out[1] >> 4)
                        elif f["name"] == "set_dup" and len(argv) == 1 and out[1] != ((h | dm) if argv[0][1] else (h & ~dm & 0xFF)):
                            bad = "set_dup(%s) on header 0x%02x gives 0x%02x, the specification's DUP bit is 0x%02x" % (bool(argv[0][1]), h, out[1], dm)
                    if bad:
                        break
                if bad:
                    break
            if bad:
                r3.violation(key0, "%s: %s" % (key0, bad), site="%s:%s" % (f["file"], f["line"]))
            elif nev == 0:
                r3.violation(key0, "%s: no returning path evaluated" % key0)
            else:
                r3.ok(key0, {"evaluated": nev})
        if nset == 0:
            r3.violation("%s::publish::setters" % ver, "no method rewriting the fixed header found in %s PUBLISH (anchor lost)" % ver)

    # ------------------------------------------------------------------ R4
    r4 = run.rule("C03-R4", "field order on the wire (by field type) equals the specification's variable header / payload order", floor=29)
    lay = json.load(open(os.path.join(VERIF, "spec", "layout.json")))
    ps = serial.pairs(F, both=False)
    for path, (ver, kind) in sorted(kinds.items()):
        impl = [k for k in ps if k.split("<")[0] == path]
        key = "%s::%s" % (ver, kind)
        want = lay.get(ver, {}).get(kind.lower())
        if not impl or want is None:
            r4.violation(key, "no serialiser / no layout oracle for %s" % key)
            continue
        seqs, un = serial.sequences(F, ps[impl[0]]["to_continuous_buffer"])
        # the longest sequence has every optional part present
        best = max(seqs, key=lambda x: len(x[1]))[3] if seqs else []
        sig = []
        for it in best:
            sig.append(item_type(F, impl[0], it))
        # collapse repeated list elements
        comp = []
        for s in sig:
            if not comp or comp[-1] != s or not s.endswith("*"):
                comp.append(s)
        if comp == want:
            r4.ok(key, comp)
        else:
            # the key names the order actually written, so that a known deviation does not hide a different one
            r4.violation("%s/written=%s" % (key, ".".join(str(x) for x in comp)[:120]),
                         "%s is written as %s; the specification's order is %s" % (key, comp, want), site="%s" % ps[impl[0]]["to_continuous_buffer"]["file"])


def trace_fixed_header(F, f, op, depth=0, seen=None):
    """Set of FixedHeader variant names whose constant flows into a fixed_header operand (static backward slice
    over the function's MIR: copies, casts, array/tuple aggregates, + / | with other operands, as_u8 calls)."""
    fh = F.discr_map("mqtt::packet::packet_type::FixedHeader")
    byval = {v: k for k, v in fh.items()}
    out = set()
    seen = seen if seen is not None else set()

    def from_const(c):
        if c.get("variant") and "FixedHeader" in c.get("ty", ""):
            out.add(c["variant"])
        elif "bits" in c and "FixedHeader" in c.get("s", "") and c["bits"] in byval:
            out.add(byval[c["bits"]])

    def visit(o, d):
        if d > 10:
            return
        if "const" in o:
            from_const(o["const"])
            return
        pl = o.get("move") or o.get("copy")
        if not pl or pl["l"] in seen:
            return
        seen.add(pl["l"])
        local = pl["l"]
        for b in f["blocks"]:
            for s in b["stmts"]:
                if s["k"] == "assign" and s["lhs"]["l"] == local:
                    rv = s["rv"]
                    if rv["k"] == "agg" and rv.get("adt", "").endswith("FixedHeader"):
                        out.add(rv["variant"])
                    elif rv["k"] in ("use", "cast", "repeat"):
                        visit(rv["op"], d + 1)
                    elif rv["k"] == "agg":
                        for x in rv["ops"]:
                            visit(x, d + 1)
                    elif rv["k"] == "bin":
                        visit(rv["a"], d + 1)
                        visit(rv["b"], d + 1)
                    elif rv["k"] == "ref":
                        visit({"copy": rv["place"]}, d + 1)
            t = b["term"]
            if t["k"] == "call" and t["dest"]["l"] == local:
                fi = t["func"].get("const", {}).get("fn", {})
                if fi.get("name") in ("as_u8", "unwrap_or", "into", "from", "clone", "unwrap"):
                    for a in t["args"]:
                        visit(a, d + 1)
    visit(op, depth)
    if len(out) == 1:
        return list(out)[0]
    if not out:
        return "?"
    return "|".join(sorted(out))


def item_type(F, impl_self, it):
    """Type vocabulary of one serialised item (field the bytes come from -> its declared type)."""
    raw = repr(it)
    m = re.search(r"self\.(\w+)", raw)
    fld = m.group(1) if m else None
    if fld is None:
        m = re.search(r"\('f', \d+, '(\w+)'\)", raw)
        fld = m.group(1) if m else None
    ty = serial.field_type(F, impl_self, fld) if fld else None
    if ty is None:
        return "?" + raw[:40]
    if ty.startswith("std::option::Option<") and ty.endswith(">"):
        ty = ty[len("std::option::Option<"):-1]
    m = re.match(r"^std::vec::Vec<(.*)>$", ty)
    lst = False
    if m:
        ty = m.group(1)
        lst = True
    short = {"[u8; 1]": "u8", "[u8; 2]": "u16", "[u8; 4]": "u32", "[u8; 6]": "bytes6"}.get(ty)
    if short is None:
        short = ty.replace("mqtt::packet::variable_byte_integer::VariableByteInteger", "vbi").replace("mqtt::packet::mqtt_string::MqttString", "utf8") \
            .replace("mqtt::packet::mqtt_binary::MqttBinary", "binary").replace("mqtt::packet::sub_entry::SubEntry", "subentry") \
            .replace("mqtt::common::arc_payload::ArcPayload", "payload") \
            .replace("<PacketIdType as mqtt::packet::packet_id::IsPacketId>::Buffer", "packet_id")
    if lst and short == "mqtt::packet::property::Property":
        return "properties"
    return short + ("*" if lst else "")
