"""C13 - topic aliases resolve to the intended topic (structural obligations).

R1  an empty-topic PUBLISH given by the caller is emitted only on paths where the alias was validated against
    the send table (range check true and TopicAliasSend::get returned Some).
R2  binding => emission: after insert_or_update on the send table no refusal is reachable, and the packet
    emitted on a binding path still carries the topic (caller's packet, or add_topic_alias for a new
    automatic binding - never remove_topic_add_topic_alias).
R3  automatic mapping / replacement substitutes an alias only from find_by_topic on the current table and
    only when status is Connected.
R4  receive side: empty topic => lookup in the receive table or TopicAliasInvalid; topic + alias => range
    check dominates insert_or_update; a TopicAliasInvalid exit never delivers.
R5  alias tables are created only from a non-zero Topic Alias Maximum in the four handshake handlers.
R6  the send table's two indexes agree (alias -> topic, topic -> aliases): registering writes both; rebinding an alias
    whose old binding is found removes it from the old topic's list; no search in the alias tables assumes an order
    (binary_search / partition_point) that the writers - which append in registration order - do not maintain.
"""
import conn
import explore
import facts as factsmod

TAS = "mqtt::packet::topic_alias_send::TopicAliasSend::"
TAR = "mqtt::packet::topic_alias_recv::TopicAliasRecv::"


def check(run, F, tier):
    run.explanation = "Structural alias obligations on all abstract paths of the v5 PUBLISH send/receive handlers and the four handshake handlers."
    ms = conn.gc_methods(F)
    recvh = conn.handlers(F, "process_recv")
    sendh = conn.handlers(F, "process_send")
    f = sendh[("v5_0", "publish")]
    res = conn.paths(F, f["path"])
    interned = res["interned"]
    ps = [p for p in res["paths"] if p.kind == "return"]

    r1 = run.rule("C13-R1", "caller-supplied empty topic is emitted only with a validated alias", floor=1)
    r2 = run.rule("C13-R2", "recording an alias binding is followed by the emission that carries the topic", floor=2)
    r3 = run.rule("C13-R3", "automatic alias substitution uses find_by_topic of the current table, only when Connected", floor=1)
    p1 = {}
    p2 = {}
    p3 = {}
    n1 = n2 = n3 = 0
    for p in ps:
        w = conn.word(p) or []
        emits = [ev for i, ev in conn.pushes(p, "RequestSendPacket") if p.effects[i][3][0] == f["path"]]
        emp = [conn.truth(p, e) for _, e in conn.calls(p, "::is_empty") if "topic_name" in repr(conn.expand_all(interned, e[3][0]))]
        empty_topic = bool(emp) and emp[0] is True
        iou = [(i, e) for i, e in conn.calls(p, TAS + "insert_or_update")]
        getc = [(i, e) for i, e in conn.calls(p, TAS + "get")]
        fbt = [(i, e) for i, e in conn.calls(p, TAS + "find_by_topic")]
        pk = conn.expand_all(interned, emits[0][3][0]) if emits else None
        if emits and empty_topic:
            n1 += 1
            got = any(conn.possible(F, p, e[4][1], "std::option::Option") == {"Some"} for _, e in getc)
            if not got:
                p1.setdefault("empty-topic PUBLISH emitted without a successful lookup of its alias in the send table", p)
        if iou:
            n2 += 1
            if conn.errors(p):
                p2.setdefault("alias binding recorded (insert_or_update) and the send is then refused: %s" % ",".join(conn.errors(p)), p)
            elif emits:
                s = repr(pk)
                if "remove_topic_add_topic_alias" in s:
                    p2.setdefault("a new binding is recorded but the emitted packet has its topic removed", p)
                if "get_lru_alias" in repr(conn.expand_all(interned, iou[0][1][3])) and "add_topic_alias" not in s:
                    p2.setdefault("automatic new binding recorded but the emitted packet does not carry the alias", p)
            elif "Connected" in conn.status_at_entry(F, p):
                p2.setdefault("alias binding recorded but nothing is emitted although status may be Connected", p)
            elif "get_lru_alias" in repr(conn.expand_all(interned, iou[0][1][3])):
                # an alias the library chose itself is known to the peer only through the packet that carries topic + alias
                p2.setdefault("automatic alias binding recorded on a path that emits nothing (status %s): the peer never learns it" % sorted(conn.status_at_entry(F, p)), p)
        if pk is not None and "remove_topic_add_topic_alias" in repr(pk):
            n3 += 1
            if conn.status_at_entry(F, p) != {"Connected"}:
                p3.setdefault("automatic alias substitution on a path where status is not known Connected", p)
            # the alias operand must be the payload of find_by_topic on the send table
            if not fbt or "find_by_topic" not in repr(pk):
                p3.setdefault("substituted alias does not come from find_by_topic", p)
            elif "topic_alias_send" not in repr(conn.expand_all(interned, fbt[0][1][3][0])):
                p3.setdefault("find_by_topic is not applied to the connection's send table", p)
    for rule, probs, n, key in ((r1, p1, n1, "manual-empty-topic"), (r2, p2, n2, "binding"), (r3, p3, n3, "auto-substitution")):
        for pr, p in sorted(probs.items()):
            rule.violation("%s/%s" % (f["name"], pr), "%s: %s" % (f["name"], pr), conn.path_summary(p), site="%s:%s" % (f["file"], f["line"]))
        if not probs:
            if n == 0:
                rule.violation(key, "no %s path found (anchor lost)" % key)
            else:
                rule.ok(key, {"paths": n})
    # R2 second instance: manual alias path emits the caller's packet unchanged
    bad = None
    n = 0
    for p in ps:
        iou = conn.calls(p, TAS + "insert_or_update")
        emits = [ev for i, ev in conn.pushes(p, "RequestSendPacket") if p.effects[i][3][0] == f["path"]]
        if iou and emits and "get_lru_alias" not in repr(conn.expand_all(interned, iou[0][1][3])):
            n += 1
            pk = conn.expand_all(interned, emits[0][3][0])
            if not (pk[0] == "sym" and pk[1][0] == "into" and pk[1][1] == ("sym", ("arg", "packet"))):
                bad = p
    if bad or n == 0:
        r2.violation("manual-binding-emits-caller-packet", "manual alias registration path does not emit the caller's packet unchanged", conn.path_summary(bad) if bad else None)
    else:
        r2.ok("manual-binding-emits-caller-packet", {"paths": n})

    # ------------------------------------------------------------------ R4
    r4 = run.rule("C13-R4", "receive side: lookup or TopicAliasInvalid; range check dominates registration; invalid => not delivered; topic+alias always binds", floor=4)
    f = recvh[("v5_0", "publish")]
    res = conn.paths(F, f["path"])
    interned = res["interned"]
    problems = {}
    n_inv = n_reg = n_look = n_bind = n_found = n_skip = 0
    for p in res["paths"]:
        if p.kind != "return":
            continue
        w = conn.word(p) or []
        inv = "NotifyError(TopicAliasInvalid)" in w
        if inv:
            n_inv += 1
            if "NotifyPacketReceived" in w:
                problems.setdefault("TopicAliasInvalid reported and the packet is delivered", p)
        emp = [conn.truth(p, e) for _, e in conn.calls(p, "::is_empty") if "topic_name" in repr(conn.expand_all(interned, e[3][0]))]
        iou = conn.calls(p, TAR + "insert_or_update")
        getc = conn.calls(p, TAR + "get")
        delivered = "NotifyPacketReceived" in w
        if emp and emp[0] is True and delivered:
            n_look += 1
            if not any(conn.possible(F, p, e[4][1], "std::option::Option") == {"Some"} for _, e in getc):
                problems.setdefault("empty-topic PUBLISH delivered without a successful receive-table lookup", p)
            if "add_extracted_topic_name" not in repr([conn.expand_all(interned, e[2]) for _, e in [(i, p.effects[i]) for i, _ in conn.pushes(p, "NotifyPacketReceived")]]):
                problems.setdefault("empty-topic PUBLISH delivered without the looked-up topic attached", p)
        if iou:
            n_reg += 1
            # range check: ta == 0 false, table present, ta > max false
            okr = False
            zero = gt = None
            for k, c in p.cons.items():
                ke = conn.expand_all(interned, k)
                if ke[0] == "cmp" and ke[1] == "Eq" and c == ("eq", 0) and ("c", 0, "u16") in (ke[2], ke[3]):
                    zero = True
                if ke[0] == "cmp" and ke[1] == "Lt" and c == ("eq", 0) and "::max" in repr(ke[2]):
                    gt = True
            if not (zero and gt):
                problems.setdefault("alias registered on the receive table without the 1..=max range check", p)
        # a PUBLISH that carries topic + alias binds the alias whether or not it is delivered (the sender regards it
        # as bound once sent): every accepted non-empty-topic path looks for the alias property, and registers it when found
        err = any(x.startswith("NotifyError") for x in w)
        if not emp and not err:
            # every accepted PUBLISH goes through the alias step (lookup or binding): a path that skips it - for a duplicate,
            # a QoS level, a configuration - leaves the receive table behind the sender's
            n_skip += 1
            problems.setdefault("accepted PUBLISH path never examines the topic name: Topic Alias lookup / binding skipped", p)
        if emp and emp[0] is False and not err:
            n_bind += 1
            win = None
            found = False
            for e in p.effects:
                if e[0] == "enter" and e[1].endswith("::get_topic_alias_from_props"):
                    win = []
                elif e[0] == "exit" and e[1].endswith("::get_topic_alias_from_props") and win is not None:
                    rv = e[2] if len(e) > 2 else None     # the helper's result on this path
                    if rv is not None and rv[0] == "agg":
                        found = rv[2] == "Some"
                    elif rv is not None and rv[0] == "sym":
                        found = conn.possible(F, p, rv[1], "std::option::Option") == {"Some"}
                    break
                elif win is not None:
                    win.append(e)
            if win is None:
                problems.setdefault("accepted PUBLISH with a topic name is not searched for a Topic Alias to bind", p)
            elif found and not iou:
                n_found += 1
                problems.setdefault("accepted PUBLISH with topic name and Topic Alias does not bind the alias", p)
            elif found:
                n_found += 1
    if n_inv == 0 or n_reg == 0 or n_look == 0 or n_bind == 0 or n_found == 0:
        problems.setdefault("invalid=%d register=%d lookup=%d bind=%d found=%d paths (anchor lost)" % (n_inv, n_reg, n_look, n_bind, n_found), None)
    for pr, p in sorted(problems.items()):
        r4.violation("%s/%s" % (f["name"], pr), "%s: %s" % (f["name"], pr), conn.path_summary(p) if p else None, site="%s:%s" % (f["file"], f["line"]))
    if not problems:
        r4.ok(f["name"], {"invalid_paths": n_inv, "register_paths": n_reg, "lookup_paths": n_look})
        r4.ok("invalid-never-delivers")
        r4.ok("range-check-dominates-registration")
        r4.ok("topic-with-alias-always-binds", {"accepted_paths_with_topic": n_bind, "with_alias_found": n_found})

    # ------------------------------------------------------------------ R5
    r5 = run.rule("C13-R5", "alias tables are created only in the handshake handlers, from a non-zero Topic Alias Maximum", floor=4)
    allowed = {"process_send_v5_0_connect", "process_send_v5_0_connack", "process_recv_v5_0_connect", "process_recv_v5_0_connack"}
    # who may create: the handshake handlers, directly or through private helpers only they reach
    offenders, via = conn.offending_callers(F, (TAS + "new", TAR + "new"), allowed)
    for owner in sorted(offenders):
        r5.violation(owner, "topic alias table created in %s (allowed: handshake handlers only)" % owner)
    for owner in sorted(allowed):
        if owner not in via:
            r5.violation(owner, "%s no longer creates an alias table from Topic Alias Maximum" % owner)
            continue
        h = ms[owner]
        rs = conn.paths(F, h["path"])
        bad = None
        n = 0
        for p in rs["paths"]:
            for i, e in conn.calls(p, "::new"):
                if e[1] not in (TAS + "new", TAR + "new"):
                    continue
                n += 1
                # the maximum handed to the table is non-zero on this path, however the test is spelled
                if conn.decide(p, rs["interned"], ("c", 0, "u16"), "lt", e[3][0]) is not True:
                    bad = p
        if n == 0:
            r5.violation(owner, "%s reaches no alias-table construction on any explored path" % owner)
            continue
        if bad:
            r5.violation(owner, "%s creates an alias table without a dominating `Topic Alias Maximum != 0` test (TopicAliasSend::new(0) asserts)" % owner,
                         conn.path_summary(bad), site="%s:%s" % (h["file"], h["line"]))
        elif n == 0:
            r5.violation(owner, "%s: table creation not reached on any explored path" % owner)
        else:
            r5.ok(owner, {"creation_sites_on_paths": n})
    check_indexes(run, F)
    conn.prune_path_cache(F)


ORDER_ASSUMING = ("binary_search", "binary_search_by", "binary_search_by_key", "partition_point")
APPENDING = ("push", "extend", "extend_from_slice", "append", "push_back")
REMOVING = ("retain", "retain_mut", "remove", "swap_remove", "drain", "clear", "pop", "truncate", "extract_if")


def order_assumptions(fns):
    """(searches, appends) among the callees of the given function facts: calls that assume a sorted sequence, calls that
    append in arrival order."""
    srch, app = [], []
    for f in fns:
        for c in sorted(factsmod.fn_refs(f)):
            nm = c.split("::")[-1]
            if nm in ORDER_ASSUMING and ("slice" in c or "Vec" in c or "VecDeque" in c):
                srch.append((f["path"], c))
            if nm in APPENDING and ("Vec" in c or "VecDeque" in c):
                app.append((f["path"], c))
    return srch, app


def check_indexes(run, F):
    r6 = run.rule("C13-R6", "the send alias table keeps alias->topic and topic->aliases in agreement; no unmaintained ordering assumption", floor=3)
    # self-test of the ordering scan (its expected count on the tree is zero): a body that searches and one that appends
    fake = [{"path": "t::search", "blocks": [{"term": {"func": {"const": {"fn": {"path": "std::slice::<impl [T]>::binary_search"}}}}}]},
            {"path": "t::add", "blocks": [{"term": {"func": {"const": {"fn": {"path": "std::vec::Vec::<T, A>::push"}}}}}]}]
    s_, a_ = order_assumptions(fake)
    if len(s_) != 1 or len(a_) != 1:
        run.fail_closed("C13-R6 self-test: the ordering scan does not recognise its positive example")
        return
    tab = [f for f in F.fns.values() if f.get("file", "").endswith(("packet/topic_alias_send.rs", "packet/topic_alias_recv.rs"))]
    if not tab:
        r6.violation("anchor", "no function of the alias tables found (anchor lost)")
        return
    srch, app = order_assumptions(tab)
    if srch and app:
        r6.violation("ordering", "%s searches with %s, which assumes a sorted sequence, but the alias tables' lists are filled in registration order (%s in %s): "
                     "an entry can be missed" % (srch[0][0].split("::")[-1], srch[0][1].split("::")[-1], app[0][1].split("::")[-1], app[0][0].split("::")[-1]))
    else:
        r6.ok("ordering", {"functions_scanned": len(tab), "order_assuming_searches": len(srch)})
    adt = F.adts.get(TAS[:-2])
    flds = adt["variants"][0]["fields"] if adt else []
    maps = [f for f in flds if "Map<" in f["ty"]]
    rev = [f for f in maps if "Vec<" in f["ty"]]
    fwd = [f for f in maps if "Vec<" not in f["ty"]]
    iou = F.fns.get(TAS + "insert_or_update")
    if iou is None:
        r6.violation("anchor", "TopicAliasSend::insert_or_update not found (anchor lost)")
        return
    if len(rev) != 1 or len(fwd) != 1:
        r6.ok("single-index", "TopicAliasSend holds %d map(s), no reverse index with alias lists: nothing to keep in agreement" % len(maps))
        r6.ok("rebinding", "n/a")
        return
    fwd, rev = fwd[0]["name"], rev[0]["name"]
    ex = explore.Explorer(F, inline_pred=lambda e, c, i: c.get("kind") == "Closure" or explore.small_private_helper(c))
    ps = [p for p in ex.run(iou["path"]) if p.kind == "return"]
    expand = lambda t: conn.expand_all(ex.interned_rev, t)
    n_reb = n_reg = 0
    bad_reb = bad_reg = None
    for p in ps:
        both = {"fwd": False, "rev": False}
        found_old = found_list = False
        removed = False
        for e in p.effects:
            if e[0] != "call":
                continue
            nm = e[1].split("::")[-1]
            a0 = repr(expand(e[3][0])) if e[3] else ""
            on_fwd, on_rev = ("'%s'" % fwd) in a0, ("'%s'" % rev) in a0
            if on_fwd and nm in ("insert", "insert_full", "entry"):
                both["fwd"] = True
            if on_rev and nm in ("insert", "entry") or (nm in APPENDING and ("'%s'" % rev) in a0):
                both["rev"] = True
            if on_fwd and nm in ("shift_remove", "swap_remove", "remove", "shift_remove_entry", "swap_remove_entry") and e[4][0] == "sym" \
                    and conn.possible(F, p, e[4][1], "std::option::Option") == {"Some"}:
                found_old = True
            if on_rev and nm in ("get_mut", "get") and "Map" in e[1] and e[4][0] == "sym" and conn.possible(F, p, e[4][1], "std::option::Option") == {"Some"}:
                found_list = True
            elif on_rev and nm == "entry" and e[4][0] == "sym" and found_old and \
                    any(k[0] == "discr" and k[1] == e[4][1] and "Entry" in str(k[2]) and c == ("eq", 0) for k, c in p.cons.items() if len(k) > 2):
                found_list = True       # `if let Entry::Occupied(slot) = rev.entry(old_topic)` (Occupied is variant 0 of every map's Entry)
            elif found_list and on_rev and nm in REMOVING:
                removed = True          # a removing method applied to the list the look-up returned (or to its map entry)
        n_reg += 1
        if not (both["fwd"] and both["rev"]):
            bad_reg = p
        if found_old and found_list:
            n_reb += 1
            if not removed:
                bad_reb = p
    if n_reg == 0 or bad_reg is not None:
        r6.violation("registration", "insert_or_update returns on a path that does not record the binding in both %s and %s" % (fwd, rev),
                     conn.path_summary(bad_reg) if bad_reg else None, site="%s:%s" % (iou["file"], iou["line"]))
    else:
        r6.ok("registration", {"paths": n_reg})
    if n_reb == 0:
        r6.violation("rebinding", "no path of insert_or_update finds an old binding and the old topic's alias list (anchor lost)")
    elif bad_reb is not None:
        r6.violation("rebinding", "insert_or_update: an alias whose old binding is found in %s is not removed from the old topic's list in %s "
                     "(find_by_topic then still offers it for the old topic)" % (fwd, rev), conn.path_summary(bad_reb), site="%s:%s" % (iou["file"], iou["line"]))
    else:
        r6.ok("rebinding", {"paths": n_reb})
