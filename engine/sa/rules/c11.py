"""C11 - send gating: role x version x connection state.

R1  run-time table: A3 on `send()` gives, for every GenericPacket variant and every role, the handler
    reached (or refusal); compared with spec/role_matrix.json; the variant's payload type, the
    handler name and `GenericPacket::protocol_version` agree per variant.
R2  compile-time table: SendableRole / SendableHelper / SendableVersion / PacketKind impl tables (from
    the compiler) give the set of (role, type) accepted by `checked_send`; the helper method selected
    by the PacketKind consts is overridden and calls the same process_send_* as the run-time table.
R3  state table: for each of the 29 handlers, over status x need_store x offline_publish x QoS class,
    whether some path emits/stores, compared with spec/status_matrix.json (exhaustive).
R4  refused => as if not called: refusal paths write only the id manager (release) or undo their own
    store / pid-set insertion.
"""
import json
import os
import re

import conn
import explore
from facts import FactError
from report import VERIF

ROLE_PREFIX = "mqtt::connection::role::"
GP = "mqtt::packet::enum_packet::GenericPacket"


def role_feasible(p, role):
    for k, c in p.cons.items():
        if k[0] == "cmp" and k[1] == "Eq":
            a, b = k[2], k[3]
            ta = a[1] if a[0] == "sym" and a[1][0] == "typeid" else None
            tb = b[1] if b[0] == "sym" and b[1][0] == "typeid" else None
            if ta and tb:
                x, y = ta[1], tb[1]
                if x != "Role":
                    x, y = y, x
                if x != "Role":
                    continue
                want = (y == ROLE_PREFIX + role)
                got = (c == ("eq", 1))
                if c[0] != "eq":
                    return None
                if want != got:
                    return False
    return True


def variant_of(F, p):
    for k, c in p.cons.items():
        if k[0] == "discr" and k[1] == ("arg", "packet") and k[2] == GP and c[0] == "eq":
            return F.variant_by_idx(GP, c[1])["name"]
    return None


def split_variant(v):
    m = re.match(r"^(V3_1_1|V5_0)(\w+)$", v)
    return m.group(1).lower(), m.group(2).lower()


def check(run, F, tier):
    run.explanation = ("Exact extraction of the send-gating matrices from MIR: send() explored over packet variant x role "
                       "(TypeId atoms) x version agreement; trait impl tables taken from the compiler; every handler explored "
                       "over status x need_store x offline_publish x QoS; refusal paths' write sets. All cells compared with "
                       "the transcribed MQTT role/state tables.")
    spec = json.load(open(os.path.join(VERIF, "spec", "role_matrix.json")))
    sspec = json.load(open(os.path.join(VERIF, "spec", "status_matrix.json")))
    ms = conn.gc_methods(F)
    sendh = conn.handlers(F, "process_send")
    gp = F.adt(GP)
    variants = [v["name"] for v in gp["variants"]]

    def allowed(ver, kind, role):
        s = spec["send"][ver]
        if role == "Any":
            return kind in s["client"] or kind in s["server"]
        return kind in s[role.lower()]

    # ------------------------------------------------------------------ R1
    r1 = run.rule("C11-R1", "run-time role x variant table of send() equals the MQTT role table", floor=87, kind="E")
    res = conn.paths(F, ms["send"]["path"])
    rt = {}
    by_variant = {}
    version_guard_ok = True
    for p in res["paths"]:
        if p.kind == "diverge":
            continue
        v = variant_of(F, p)
        ent = [e[1].split("::")[-1] for e in p.effects if e[0] == "enter" and "process_send_" in e[1]]
        w = conn.word(p) if p.kind == "return" else None
        if v is None:
            # version mismatch path: word must be exactly the VersionMismatch error
            if p.kind == "return" and w != ["NotifyError(VersionMismatch)"]:
                version_guard_ok = False
            continue
        by_variant.setdefault(v, []).append(p)
        for role in ("Client", "Server", "Any"):
            if role_feasible(p, role):
                cell = rt.setdefault((v, role), set())
                if ent:
                    cell.add(ent[0])
                elif p.kind == "return":
                    cell.add("refuse:" + ",".join(w or ["?"]))
    if not version_guard_ok:
        r1.violation("version-guard", "send(): a path that does not dispatch on the packet variant returns something other than NotifyError(VersionMismatch)")
    # the version test must dominate the dispatch: every dispatched path carries the version-equality atom == true
    for v in variants:
        for p in by_variant.get(v, []):
            okv = False
            for k, c in p.cons.items():
                if k[0] == "cmp" and k[1] == "Eq" and "protocol_version" in repr(k) and c == ("eq", 1):
                    okv = True
            if not okv:
                r1.violation("version-guard:" + v, "send() dispatches %s on a path where connection and packet version were not compared equal" % v,
                             conn.path_summary(p))
                break
    for v in variants:
        ver, kind = split_variant(v)
        for role in ("Client", "Server", "Any"):
            cell = rt.get((v, role), set())
            want = allowed(ver, kind, role)
            handler = "process_send_%s_%s" % (ver, kind)
            key = "%s/%s" % (v, role)
            if want:
                if cell == {handler}:
                    r1.ok(key, {"handler": handler})
                else:
                    r1.violation(key, "send(): %s for role %s must reach %s, extracted: %s" % (v, role, handler, sorted(cell)))
            else:
                if cell == {"refuse:NotifyError(PacketNotAllowedToSend)"}:
                    r1.ok(key, {"refused": True})
                else:
                    r1.violation(key, "send(): %s for role %s must be refused with PacketNotAllowedToSend only, extracted: %s" % (v, role, sorted(cell)))
    # variant payload type and protocol_version table
    r1b = run.rule("C11-R1b", "GenericPacket variant <-> payload type <-> protocol_version/packet_type tables agree", floor=58, kind="E")
    payload = {}
    for v in gp["variants"]:
        ver, kind = split_variant(v["name"])
        ty = v["fields"][0]["ty"]
        payload[v["name"]] = ty
        if re.match(r"^mqtt::packet::%s::%s::(Generic)?%s(<PacketIdType>)?$" % (ver, kind, kind.capitalize()), ty):
            r1b.ok("payload:" + v["name"], ty)
        else:
            r1b.violation("payload:" + v["name"], "variant %s wraps %s" % (v["name"], ty))
    pv = [f for f in F.fns.values() if f.get("impl_self", "").startswith(GP) and f.get("name") == "protocol_version"]
    if len(pv) != 1:
        raise FactError("GenericPacket::protocol_version anchor: %d candidates" % len(pv))
    resv = conn.paths(F, pv[0]["path"])
    seen = {}
    for p in resv["paths"]:
        if p.kind != "return":
            continue
        for k, c in p.cons.items():
            if k[0] == "discr" and k[2] == GP and c[0] == "eq":
                seen[F.variant_by_idx(GP, c[1])["name"]] = p.ret
    for v in variants:
        ver, kind = split_variant(v)
        want = {"v3_1_1": "V3_1_1", "v5_0": "V5_0"}[ver]
        got = seen.get(v)
        if got and got[0] == "agg" and got[1] == conn.VERSION and got[2] == want:
            r1b.ok("version:" + v, want)
        else:
            r1b.violation("version:" + v, "GenericPacket::protocol_version(%s) returns %s, expected Version::%s" % (v, conn.short(got) if got else None, want))

    # ------------------------------------------------------------------ R2
    r2 = run.rule("C11-R2", "compile-time Sendable matrix equals run-time table and MQTT role table", floor=87, kind="E")
    roles_impl = {}
    for im in F.impls_of("mqtt::connection::sendable_role::SendableRole"):
        if im["self"].startswith("&"):
            continue
        role = im["trait_args"][0].replace(ROLE_PREFIX, "")
        roles_impl.setdefault(im["self"], set()).add(role)
    helper = {}
    for im in F.impls_of("mqtt::connection::sendable::SendableHelper"):
        role = im["trait_args"][0].replace(ROLE_PREFIX, "")
        for m in im["methods"]:
            body = F.fns.get(m["path"])
            callee = None
            if body:
                for b in body["blocks"]:
                    t = b["term"]
                    if t["k"] == "call" and "fn" in t["func"].get("const", {}):
                        nm = t["func"]["const"]["fn"]["name"]
                        if nm.startswith("process_send_"):
                            callee = nm
            helper.setdefault((im["self"], role), {})[m["name"]] = callee
    version_impl = {im["self"] for im in F.impls_of("mqtt::connection::sendable_version::SendableVersion")}
    kind_consts = {}
    pk = F.traits.get("mqtt::packet::kind::PacketKind")
    defaults = pk["consts"] if pk else {}
    for im in F.impls_of("mqtt::packet::kind::PacketKind"):
        c = dict(defaults)
        c.update({k: v for k, v in im["consts"].items() if v is not None})
        kind_consts[im["self"]] = c
    for v in variants:
        ver, kind = split_variant(v)
        ty = payload[v]
        kc = kind_consts.get(ty)
        handler = "process_send_%s_%s" % (ver, kind)
        for role in ("Client", "Server", "Any"):
            key = "%s/%s" % (v, role)
            want = allowed(ver, kind, role)
            has_role = role in roles_impl.get(ty, set())
            h = helper.get((ty, role))
            sendable = has_role and h is not None and ty in version_impl and kc is not None
            if sendable != want:
                r2.violation(key, "checked_send: %s %s for role %s (SendableRole impl=%s, SendableHelper impl=%s, SendableVersion=%s) but the MQTT table says %s"
                             % (ty, "accepted" if sendable else "rejected", role, has_role, h is not None, ty in version_impl, "allowed" if want else "forbidden"))
                continue
            if not sendable:
                r2.ok(key, {"sendable": False})
                continue
            # PacketKind consts select exactly one helper method
            is_kind = [k for k, val in kc.items() if val == 1 and k.startswith("IS_") and k not in ("IS_V3_1_1", "IS_V5_0")]
            is_ver = [k for k, val in kc.items() if val == 1 and k in ("IS_V3_1_1", "IS_V5_0")]
            exp_kind = "IS_" + kind.upper()
            exp_ver = "IS_" + ver.upper()
            if is_kind != [exp_kind] or is_ver != [exp_ver]:
                r2.violation(key, "PacketKind consts of %s are %s/%s, expected %s/%s" % (ty, is_kind, is_ver, exp_kind, exp_ver))
                continue
            meth = "send_%s_%s" % (kind, ver)
            if h.get(meth) != handler:
                r2.violation(key, "SendableHelper<%s> for %s: method %s -> %s, expected %s (run-time send() reaches %s)" % (role, ty, meth, h.get(meth), handler, handler))
                continue
            r2.ok(key, {"method": meth, "handler": handler})
    # the generic dispatch_send picks send_<kind>_<ver> exactly under IS_<KIND> && IS_<VER>
    r2c = run.rule("C11-R2c", "generic dispatch_send selects the helper method named by the PacketKind consts", floor=29, kind="E")
    disp = [f for f in F.fns.values() if f.get("name") == "dispatch_send" and f.get("impl_self") == "T"]
    if len(disp) != 1:
        raise FactError("blanket dispatch_send anchor: %d candidates" % len(disp))
    # evaluated, not matched: the blanket dispatch_send is explored once per packet type with `T` bound to that type, so that
    # the PacketKind constants have the values the type gives them (and an `of::<T>()` helper, a table, or an if-chain over
    # them all reduce to the same thing); exactly one SendableHelper method may be reached, the one named by kind and version
    dpath = disp[0]["path"]
    tname = [g for g in (disp[0].get("generics") or []) if g not in ("Role", "PacketIdType")]
    dmod = dpath.lstrip("<").split(" as ")[-1].rsplit("::", 2)[0] if " as " in dpath else "mqtt::connection::sendable"
    inl_d = lambda ex, callee, info: callee.get("kind") == "Closure" or (callee.get("kind") in ("Fn", "AssocFn") and not callee.get("pub")
                                                                         and callee["path"].lstrip("<").startswith("mqtt::connection::sendable")
                                                                         and len(callee["blocks"]) <= 200)
    for v in variants:
        ver, kind = split_variant(v)
        meth = "send_%s_%s" % (kind, ver)
        ty = payload[v]
        if len(tname) != 1:
            r2c.violation(meth, "dispatch_send: type parameter of the blanket impl not identified (%s)" % (disp[0].get("generics"),))
            continue
        exd = explore.Explorer(F, inline_pred=inl_d)
        reached = set()
        mism = False
        try:
            for p in exd.run(dpath, tsub={tname[0]: ty}):
                if p.kind not in ("return", "diverge", "panic"):
                    continue
                calls = [e[1] for e in p.effects if e[0] == "call" and re.search(r"::send_\w+_v(3_1_1|5_0)$", e[1])]
                if calls:
                    reached.add(calls[0].split("::")[-1])
                elif p.kind == "return" and any("VersionMismatch" in repr(x) for x in (p.events() or ())):
                    mism = True
                elif p.kind == "return":
                    reached.add("<returns without dispatching>")
        except explore.ExploreError as e:
            r2c.violation(meth, "dispatch_send cannot be evaluated for %s: %s" % (ty, e))
            continue
        if reached == {meth} and mism:
            r2c.ok(meth, {"type": ty.replace("mqtt::packet::", ""), "reaches": meth})
        else:
            r2c.violation(meth, "dispatch_send::<%s> reaches %s (version-mismatch refusal present: %s), expected exactly %s" % (
                ty.replace("mqtt::packet::", ""), sorted(reached), mism, meth))

    # ------------------------------------------------------------------ R3 / R4
    # ------------------------------------------------------------------ R2v: compile-time version table
    r2v = run.rule("C11-R2v", "SendableVersion::check of every packet type is `version == the packet's own version` (evaluated for each Version value)", floor=29, kind="E")
    vvars = [v["name"] for v in F.adt(conn.VERSION)["variants"]]
    svs = sorted(pth for pth in F.fns if pth.endswith("as mqtt::connection::sendable_version::SendableVersion>::check"))
    for pth in svs:
        g = F.fns[pth]
        m = re.match(r"^mqtt::packet::(v3_1_1|v5_0)::", g.get("impl_self", ""))
        key = g.get("impl_self", pth).split("<")[0].replace("mqtt::packet::", "")
        if not m:
            r2v.note("%s: not a versioned packet type, skipped" % key)
            continue
        own = "V3_1_1" if m.group(1) == "v3_1_1" else "V5_0"
        an = g.get("names", {}).get("1", "version")
        got = {}
        for vn in vvars:
            def setup_v(exx, st, fr, vn=vn):
                st.heap[(("arg", an), ())] = ("agg", conn.VERSION, vn, ())
            exv = explore.Explorer(F)
            rets = [p_.ret for p_ in exv.run(pth, setup=setup_v) if p_.kind == "return"]
            got[vn] = rets[0][1] == 1 if (len(rets) == 1 and rets[0][0] == "c") else None
        want = {vn: (vn == own) for vn in vvars}
        if got == want:
            r2v.ok(key, own)
        else:
            r2v.violation(key, "SendableVersion::check for %s answers %s, expected true exactly for %s (send() compares the versions for equality: the "
                          "compile-time-checked and the run-time-checked API would disagree)" % (key, got, own), site="%s:%s" % (g["file"], g["line"]))

    r3 = run.rule("C11-R3", "state table: emission / acceptance per status x need_store x offline_publish x QoS equals the MQTT state rules", floor=29 * 12, kind="E")
    r4 = run.rule("C11-R4", "refused send leaves no trace: refusal paths write only the id manager or undo their own insertion", floor=29)
    STAT = ["Disconnected", "Connecting", "Connected"]
    qos_adt = "mqtt::packet::qos::Qos"
    for (ver, kind), f in sorted(sendh.items()):
        res = conn.paths(F, f["path"])
        cells = {}
        refusal_bad = {}
        n_refusals = 0
        for p in res["paths"]:
            if p.kind != "return":
                continue
            w = conn.word(p) or []
            emits = "RequestSendPacket" in w
            stores = any(e[0] == "call" and e[1].endswith("GenericStore::<PacketIdType>::add") for e in p.effects)
            errs = [x for x in w if x.startswith("NotifyError")]
            sts = conn.status_at_entry(F, p)
            ns = conn.bool_field_at_entry(F, p, "need_store")
            op = conn.bool_field_at_entry(F, p, "offline_publish")
            qs = {"-"}
            if kind == "publish":
                qt = [e for e in p.effects if e[0] == "call" and e[1].endswith("::qos")]
                if qt:
                    qs = conn.possible(F, p, qt[0][4][1], qos_adt)
                else:
                    qs = {"AtMostOnce", "AtLeastOnce", "ExactlyOnce"}
            for s in sts:
                for a in ns:
                    for b in op:
                        for q in qs:
                            c = cells.setdefault((s, a, b, q), {"emit": False, "store": False, "noerr_noemit": False, "paths": 0, "err_only": True})
                            c["paths"] += 1
                            c["emit"] |= emits
                            c["store"] |= stores
                            if not errs:
                                c["err_only"] = False
            # R4
            if errs:
                n_refusals += 1
                last = {}
                for fld, how, e in conn.effective_writes(F, p):
                    last[fld] = how
                for fld, how in last.items():
                    okw = (fld == "pid_man" and how == "release_id") or \
                          (fld == "store" and how == "erase_publish") or \
                          (fld in ("pid_puback", "pid_pubrec") and how == "remove")
                    if not okw:
                        refusal_bad.setdefault((fld, how, tuple(errs)), p)
        hname = f["name"]
        if refusal_bad:
            for (fld, how, errs), p in sorted(refusal_bad.items(), key=lambda x: x[0]):
                r4.violation("%s/%s/%s/%s" % (hname, fld, how, ",".join(errs)),
                             "%s: refusal path (%s) leaves a write to self.%s (last write via %s)" % (hname, ",".join(errs), fld, how),
                             conn.path_summary(p), site="%s:%s" % (f["file"], f["line"]))
        else:
            r4.ok(hname, {"refusal_paths": n_refusals})
        emit_states = sspec["emit"].get(kind, sspec["emit"]["default"])
        for (s, a, b, q), c in sorted(cells.items()):
            key = "%s/%s/ns=%d/op=%d/q=%s" % (hname, s, a, b, q)
            may_emit = s in emit_states
            if kind == "publish" and q in ("AtLeastOnce", "ExactlyOnce"):
                accepted = may_emit or a or b
            elif kind == "pubrel":
                accepted = may_emit or a
            else:
                accepted = may_emit
            problems = []
            if c["emit"] and not may_emit:
                problems.append("a path emits RequestSendPacket although status=%s is not an emitting state for %s" % (s, kind))
            if may_emit and not c["emit"]:
                problems.append("no path emits although status=%s allows %s" % (s, kind))
            if not accepted and not c["err_only"]:
                problems.append("a path returns without an error event although the call must be refused")
            if not accepted and c["store"]:
                problems.append("a path stores the packet although the call must be refused")
            if problems:
                r3.violation(key, "%s: %s" % (hname, "; ".join(problems)), {"cell": {"status": s, "need_store": a, "offline_publish": b, "qos": q}, "observed": c})
            else:
                r3.ok(key)
    run.cov_extra["exhaustive"] = True
    run.cov_extra["cells"] = {"role_table": len(variants) * 3, "state_cells": r3.instances}
    check_persistence_input(run, F)
    conn.prune_path_cache(F)


_riv = {}


def reaches_interval_value(F, path, depth=0):
    """Does the in-crate function (through at most three levels of calls / closures) read SessionExpiryInterval::val?"""
    import facts as factsmod
    key = (F.hash, path)
    if key in _riv:
        return _riv[key]
    _riv[key] = False
    g = F.fns.get(path)
    if g is not None and depth <= 3:
        for r in factsmod.fn_refs(g):
            if r.endswith("SessionExpiryInterval::val") or (r in F.fns and reaches_interval_value(F, r, depth + 1)):
                _riv[key] = True
                break
    return _riv[key]


def check_persistence_input(run, F):
    """R6: `need_store` is the "persistent session" input of the state gate (QoS>0 PUBLISH / PUBREL are accepted outside
    Connected only when it is set).  In the v5.0 handshake handlers it may be raised only by a clean-start flag that is
    clear or by a Session Expiry Interval whose value is decided non-zero on the path - an interval of 0 is the protocol's
    way of saying "no session" (MQTT 5.0 3.1.2.11.2)."""
    r6 = run.rule("C11-R6", "v5.0 handshake: the persistence flag is raised only for clean-start = 0 or a non-zero Session Expiry Interval", floor=3)
    hs = {}
    hs.update({("send",) + k: f for k, f in conn.handlers(F, "process_send").items() if k in (("v5_0", "connect"),)})
    hs.update({("recv",) + k: f for k, f in conn.handlers(F, "process_recv").items() if k in (("v5_0", "connect"), ("v5_0", "connack"))})
    if len(hs) != 3:
        r6.violation("anchor", "v5.0 CONNECT / CONNACK handlers not found (anchor lost)")
        return
    for key, f in sorted(hs.items()):
        res = conn.paths(F, f["path"])
        interned = res["interned"]
        n = 0
        bad = None
        for p in res["paths"]:
            if p.kind != "return":
                continue
            ws = [e for e in p.effects if e[0] == "write" and e[1] == ("self",) and conn.field_of_write(e) == "need_store" and e[3] == ("c", 1, "bool")]
            if not ws:
                continue
            n += 1
            just = False
            for _, e in conn.calls(p, "::clean_start") + conn.calls(p, "::clean_session"):
                if conn.truth(p, e) is False:
                    just = True
            for _, e in conn.calls(p, "SessionExpiryInterval::val"):
                if conn.decide(p, interned, ("c", 0, "u32"), "lt", e[4]) is True:
                    just = True
            if not just and any(e[0] == "closure_iter" for e in p.effects):
                # the decision was taken by a closure handed to an iterator method (`props.iter().any(|p| matches!(p,
                # SessionExpiryInterval(v) if v.val() != 0))`): its verdict is not linked to the method's result in this
                # abstraction, so only the structural part is judged - an interval that is matched is also looked at
                PROP = "mqtt::packet::property::Property"
                sei = [v for v in F.adt(PROP)["variants"] if v["name"] == "SessionExpiryInterval"]
                d_sei = sei[0].get("discr", sei[0]["idx"]) if sei else None
                matched = any(k[0] == "discr" and len(k) > 2 and k[2] == PROP and c == ("eq", d_sei) for k, c in p.cons.items())
                just = not matched or bool(conn.calls(p, "SessionExpiryInterval::val"))
            if not just:
                # ... or by a private helper the handler asks (`connect_props_request_session_persistence(props)`): a call on
                # the path to an in-crate function that itself looks at the interval's value
                for _, e in conn.calls(p, ""):
                    if e[1] in F.fns and e[1] != f["path"] and reaches_interval_value(F, e[1]):
                        just = True
                        break
            if not just:
                bad = p
        name = f["name"]
        if bad is not None:
            r6.violation(name, "%s sets need_store = true on a path where neither the clean-start flag is clear nor a Session Expiry Interval is known to be "
                         "non-zero (an interval of 0 would make the session persistent: QoS>0 sends are then accepted and stored outside Connected)" % name,
                         conn.path_summary(bad), site="%s:%s" % (f["file"], f["line"]))
        elif n == 0:
            r6.violation(name, "%s never raises need_store on any explored path (anchor lost)" % name)
        else:
            r6.ok(name, {"paths_raising_the_flag": n})
