"""C01 - two endpoints interoperate (three structural clauses; delivery counts, quiescence and loss schedules
are not decided by this family).

R1  response-graph acyclicity (sufficient for "no endless response loop"): per version, the graph
    received kind -> kinds the receive handler can request to send is acyclic.
R2  send/receive duality (necessary for "neither side reports a protocol error about the other"): for each
    version and kind, Client may send <=> Server can receive, and Server may send <=> Client can receive
    (tables extracted from send() and process_recv_packet).
R3  both ends agree where a QoS 2 exchange ends: the set of PUBREC reason codes for which the PUBREC sender
    releases its inbound bookkeeping equals the set for which the PUBREC receiver ends the outbound exchange.
"""
import json
import os

import conn
import explore
from report import VERIF
from rules import c11 as C11

PRC = "mqtt::result_code::PubrecReasonCode"


def check(run, F, tier):
    run.explanation = ("Structural necessary / sufficient conditions of pairwise interoperation extracted from MIR: response graph, "
                       "send/receive duality of the two gating tables, and agreement of both PUBREC handlers on the reason codes that "
                       "end an exchange. The behavioural statement over schedules and loss points is NOT decided.")
    ms = conn.gc_methods(F)
    recvh = conn.handlers(F, "process_recv")
    sendh = conn.handlers(F, "process_send")
    spec = json.load(open(os.path.join(VERIF, "spec", "role_matrix.json")))

    # ------------------------------------------------------------------ R1
    r1 = run.rule("C01-R1", "automatic-response graph is acyclic per version; error replies go only to the terminal DISCONNECT / refusing CONNACK", floor=4)
    for ver in ("v3_1_1", "v5_0"):
        g = {}
        err_targets = {}
        for (v, kind), f in recvh.items():
            if v != ver:
                continue
            outs = set()
            for p in conn.paths(F, f["path"])["paths"]:
                if p.kind != "return":
                    continue
                w = conn.word(p) or []
                if "RequestSendPacket" not in w:
                    continue
                tg = set()
                for e in p.effects:
                    if e[0] == "enter" and "::process_send_" in e[1]:
                        tg.add(e[1].split("::")[-1].split("_")[-1])
                    if e[0] == "enter" and e[1].endswith("::send_stored"):
                        tg.update(["publish", "pubrel"])
                if any(x.startswith("NotifyError") for x in w):
                    err_targets.setdefault(kind, set()).update(tg)
                else:
                    outs |= tg
            g[kind] = outs
        color = {}
        cyc = []

        def dfs(u, stack):
            color[u] = 1
            for v2 in sorted(g.get(u, ())):
                if color.get(v2) == 1:
                    cyc.append(stack + [u, v2])
                elif color.get(v2) is None:
                    dfs(v2, stack + [u])
            color[u] = 2
        for k in sorted(g):
            if color.get(k) is None:
                dfs(k, [])
        if cyc:
            r1.violation(ver, "response cycle in %s: %s" % (ver, " -> ".join(cyc[0])), {"graph": {k: sorted(v) for k, v in g.items()}})
        else:
            r1.ok(ver, {k: sorted(v) for k, v in g.items() if v})
        # error replies: only the terminal packets (each carries RequestClose and leaves status Disconnected: C19-R2, C15-R2)
        allowed = {"disconnect", "connack"}
        bad = {k: sorted(v - allowed) for k, v in err_targets.items() if v - allowed}
        if bad:
            r1.violation(ver + "/error-replies", "%s: error paths answer with non-terminal packets: %s" % (ver, bad))
        else:
            r1.ok(ver + "/error-replies", {k: sorted(v) for k, v in err_targets.items()})
    # terminality: every emitting path of the DISCONNECT send handlers leaves status = Disconnected
    for ver in ("v3_1_1", "v5_0"):
        f = sendh[(ver, "disconnect")]
        bad = None
        n = 0
        for p in conn.paths(F, f["path"])["paths"]:
            if p.kind != "return" or "RequestSendPacket" not in (conn.word(p) or []):
                continue
            n += 1
            ws = [e for e in p.effects if e[0] == "write" and conn.field_of_write(e) == "status"]
            if not ws or ws[-1][3] != ("agg", conn.STATUS, "Disconnected", ()):
                bad = p
        if bad or n == 0:
            r1.violation(ver + "/disconnect-terminal", "sending DISCONNECT (%s) does not leave the connection Disconnected" % ver, conn.path_summary(bad) if bad else None)
        else:
            r1.ok(ver + "/disconnect-terminal", n)

    # ------------------------------------------------------------------ R2
    r2 = run.rule("C01-R2", "what one role may send the peer role can receive, and vice versa", floor=58, kind="E")
    # send table
    res = conn.paths(F, ms["send"]["path"])
    send = {}
    for p in res["paths"]:
        if p.kind == "diverge":
            continue
        v = C11.variant_of(F, p)
        if v is None:
            continue
        ent = [e[1].split("::")[-1] for e in p.effects if e[0] == "enter" and "process_send_" in e[1]]
        for role in ("Client", "Server"):
            if C11.role_feasible(p, role) and ent:
                send.setdefault((v, role), True)
    # receive table
    resr = conn.paths(F, ms["process_recv_packet"]["path"], tag="recv-handlers")
    pt = None
    for p in resr["paths"]:
        for e in p.effects:
            if e[0] == "call" and e[1].endswith("RawPacket::packet_type"):
                pt = e[4][1]
    ver_t = ("discr", conn.field_term("protocol_version", F), conn.VERSION)
    vdis = {n: d for d, n in conn.enum_domain(F, conn.VERSION).items()}
    for ver, V in (("v3_1_1", "V3_1_1"), ("v5_0", "V5_0")):
        for kind in spec["kinds"]:
            if kind not in spec["send"][ver]["client"] + spec["send"][ver]["server"]:
                continue
            variant = V + kind.capitalize()
            for sender, receiver in (("Client", "Server"), ("Server", "Client")):
                may_send = send.get((variant, sender), False)
                env = conn.role_env(F, receiver)
                env[ver_t] = vdis[V]
                env[pt] = spec["nibble"][kind]
                can_recv = False
                for p in resr["paths"]:
                    if p.kind == "return" and conn.feasible(p, env) and any(e[0] == "stub" for e in p.effects):
                        can_recv = True
                key = "%s/%s->%s" % (variant, sender, receiver)
                if may_send == can_recv:
                    r2.ok(key, {"flows": may_send})
                else:
                    r2.violation(key, "%s: %s %s send it but %s %s receive it" % (variant, sender, "may" if may_send else "may not", receiver, "can" if can_recv else "cannot"))

    # ------------------------------------------------------------------ R3
    r3 = run.rule("C01-R3", "PUBREC reason codes that end the exchange: sender and receiver agree", floor=9, kind="E")
    dom = conn.enum_domain(F, PRC)

    def inl(ex, callee, info):
        return explore.default_inline(ex, callee, info) or callee.get("name") in ("is_success", "is_failure")

    def code_sets(fn, ends_pred, relevant_pred):
        """variant name -> set of booleans 'exchange ends' over the relevant paths; None key = absent reason code."""
        ex = explore.Explorer(F, inline_pred=inl)
        out = {}
        for p in ex.run(fn["path"]):
            if p.kind != "return" or not relevant_pred(p):
                continue
            rc = [e for _, e in conn.calls(p, "::reason_code")]
            if not rc:
                continue
            t = rc[0][4][1]
            present = conn.possible(F, p, t, "std::option::Option")
            codes = set()
            if "None" in present:
                codes.add(None)
            if "Some" in present:
                codes |= conn.possible(F, p, ("field", t, 0), PRC)
            e_ = ends_pred(p)
            for c in codes:
                out.setdefault(c, set()).add(e_)
        return out

    fs = sendh[("v5_0", "pubrec")]
    snd = code_sets(fs, lambda p: bool([1 for _, e in conn.calls(p, "HashSet::<T, S, A>::remove") if "qos2_publish_handled" in repr(e[3][0])]),
                    lambda p: "RequestSendPacket" in (conn.word(p) or []))
    fr = recvh[("v5_0", "pubrec")]

    def matched(p):
        rem = [e for _, e in conn.calls(p, "HashSet::<T, S, A>::remove") if "pid_pubrec" in repr(e[3][0])]
        return bool(rem) and conn.truth(p, rem[0]) is True

    def ends(p):
        # the exchange ends when the handler (itself or through a private helper, but not the nested PUBREL send handler)
        # gives the packet identifier back
        return bool(conn.calls_outside(p, "PacketIdManager::<T>::is_used_id") or conn.calls_outside(p, "PacketIdManager::<T>::release_id"))
    rcv = code_sets(fr, ends, matched)
    for d, name in sorted(dom.items()):
        s = snd.get(name)
        r = rcv.get(name)
        key = "%s(0x%02x)" % (name, d)
        if s is None or r is None or len(s) != 1 or len(r) != 1:
            r3.violation(key, "PUBREC %s: not decided by both handlers (send side %s, receive side %s)" % (key, s, r))
        elif s != r:
            r3.violation(key, "PUBREC %s: the sender of the PUBREC %s its inbound exchange but the receiver %s the outbound one" % (
                key, "ends" if s == {True} else "keeps", "ends" if r == {True} else "continues (sends PUBREL)"))
        else:
            r3.ok(key, {"ends_exchange": s == {True}})
