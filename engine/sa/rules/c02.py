"""C02 - codec round trip (sibling-agreement clauses only; value-level round trip is not decided).

R1  contiguous == vectored: for every type that has both `to_continuous_buffer` and `to_buffers`, the guarded
    sequence of sources appended to the output is identical for every valuation of the guards (same fields,
    same order, same conditions) - necessary and sufficient for byte equality of the two serialisations.
R3  length accounting of the builders: for every accepting path of every `XBuilder::build`, the argument of
    `VariableByteInteger::from_u32` stored as Remaining Length equals, as a linear form over position-free size atoms,
    the sum of the sizes of the sources the packet's serialiser emits after the length field when applied to the value
    that path built (decided under the path's own linear facts; one abstract iteration stands for list entries, whose
    sum must be `e.size()` over the same list).
R4  every property-length field emitted in front of a property list is `from_u32(size(that list))`.
R5  the same accounting for methods that recompute the length fields of an existing packet in place (applied to every
    value a builder path produces, then serialised).
R2  size wiring: every packet's `size()` is 1 + remaining_length.size() + remaining_length.to_u32(), and the
    GenericPacket / GenericStorePacket dispatchers forward each variant to the same-named method of its payload.
"""
import re

import conn
import lenacct
import serial

GP = "mqtt::packet::enum_packet::GenericPacket"
GSP = "mqtt::packet::enum_store_packet::GenericStorePacket"


def check(run, F, tier):
    run.explanation = ("Sibling agreement of the serialisers from MIR: guarded source sequences of to_continuous_buffer and to_buffers "
                       "compared per guard valuation (list fields given 0, 1 and 2 symbolic entries, iteration followed exactly); size() "
                       "and enum dispatch wiring; length accounting: on every accepting abstract path of every builder the value built is "
                       "handed to the packet's serialiser and the Remaining Length / property-length formulas are compared, as linear forms "
                       "over size atoms, with the sources emitted. Byte-exact parse(encode(x)) = x and the leaf encoders are NOT decided.")
    r1 = run.rule("C02-R1", "to_continuous_buffer and to_buffers append the same sources in the same order under the same conditions", floor=50)
    ps = serial.pairs(F, both=False)
    if not serial.has_vectored(F):
        # built without `std`: there is no to_buffers() (no IoSlice) in this configuration, nothing to compare
        r1.floor = 0
        r1.note("configuration %s has no vectored serialiser (std feature off): sibling comparison not applicable" % F.cfg)
    for ty, m in sorted(ps.items()):
        if "to_buffers" not in m:
            continue
        key = ty.split("<")[0].replace("mqtt::packet::", "")
        try:
            if serial.list_fields(F, ty):
                # list-carrying packets: compared for lists of 0, 1 and 2 (symbolic) entries, iteration followed exactly
                a, ua, b, ub = [], 0, [], 0
                for n in (0, 1, 2):
                    a1, ua1 = serial.sequences(F, m["to_continuous_buffer"], list_len=n)
                    b1, ub1 = serial.sequences(F, m["to_buffers"], list_len=n)
                    a += [((("entries", n),) + k, items, p, raw) for k, items, p, raw in a1]
                    b += [((("entries", n),) + k, items, p, raw) for k, items, p, raw in b1]
                    ua += ua1
                    ub += ub1
            else:
                a, ua = serial.sequences(F, m["to_continuous_buffer"])
                b, ub = serial.sequences(F, m["to_buffers"])
        except Exception as e:  # noqa
            r1.violation(key, "could not extract the serialiser sequences of %s: %r" % (ty, e))
            continue
        if ua or ub or not a or not b:
            r1.violation(key, "%s: %d/%d paths return an untracked buffer (extraction incomplete)" % (ty, ua, ub))
            continue
        da = {}
        db = {}
        for k, items, p, _raw in a:
            da.setdefault(k, set()).add(tuple(items))
        for k, items, p, _raw in b:
            db.setdefault(k, set()).add(tuple(items))
        bad = None
        if set(da) == set(db):
            # same guards on both sides: compare valuation by valuation
            for k in set(da) | set(db):
                if da.get(k) != db.get(k):
                    bad = (k, da.get(k), db.get(k))
                    break
        else:
            # one side tests something the other does not (e.g. `if !x.is_empty()` around appending x): every pair of
            # paths whose guards can hold together must append the same sources, sources known empty on the pair left out
            def atoms(k):
                return {(" ".join(x.split(" ")[:-2]), " ".join(x.split(" ")[-2:])) for x in k if isinstance(x, str)}

            def compatible(k1, k2):
                m1 = dict(atoms(k1))
                for t_, v_ in atoms(k2):
                    if t_ in m1 and m1[t_] != v_ and m1[t_].split(" ")[0] == "eq" and v_.split(" ")[0] == "eq":
                        return False
                    if t_ in m1 and {m1[t_].split(" ")[0], v_.split(" ")[0]} == {"eq", "ne"}:
                        ev = m1[t_] if m1[t_].startswith("eq") else v_
                        nv = v_ if m1[t_].startswith("eq") else m1[t_]
                        if ev.split(" ")[1] in nv.replace("[", " ").replace("]", " ").replace(",", " ").split():
                            return False
                return True

            def nonempty_items(items, k):
                keep = []
                txt = " | ".join(x for x in k if isinstance(x, str))
                for it in items:
                    src = it[1] if isinstance(it, tuple) and len(it) > 1 and isinstance(it[1], str) else None
                    if src is not None:
                        bare = src.replace("*", "").replace("$", "").replace("deref(", "")
                        if bare.startswith("(vec,())") or bare.startswith("(arr,())"):
                            continue        # an empty vector / array literal built on the path (`map_or_else(Vec::new, ..)`): no bytes
                        core = src.lstrip("*$").replace("deref(", "").rstrip(")")
                        # `len(src) eq 0` / `(cmp,Eq,0,len(src)) eq 1` among the pair's guards: an empty source contributes nothing
                        if ("(len,%s) eq 0" % core) in txt or ("(len,$%s) eq 0" % core.lstrip("$")) in txt:
                            continue
                    keep.append(it)
                return tuple(keep)
            for k1, s1 in da.items():
                for k2, s2 in db.items():
                    if not compatible(k1, k2):
                        continue
                    kk = tuple(sorted(set(x for x in k1 if isinstance(x, str)) | set(x for x in k2 if isinstance(x, str))))
                    n1 = {nonempty_items(x, kk) for x in s1}
                    n2 = {nonempty_items(x, kk) for x in s2}
                    if n1 != n2:
                        bad = (kk, n1, n2)
                        break
                if bad:
                    break
        if bad:
            r1.violation(key, "%s: serialisers disagree under %s: contiguous=%s vectored=%s" % (ty, list(bad[0])[:6], sorted(bad[1] or [])[:2], sorted(bad[2] or [])[:2]),
                         {"valuation": list(bad[0]), "to_continuous_buffer": [list(x) for x in (bad[1] or [])], "to_buffers": [list(x) for x in (bad[2] or [])]},
                         site="%s:%s" % (m["to_buffers"]["file"], m["to_buffers"]["line"]))
        else:
            r1.ok(key, {"valuations": len(da), "max_items": max(len(x) for s in da.values() for x in s)})

    # ------------------------------------------------------------------ R3 / R4
    r3 = run.rule("C02-R3", "build(): the Remaining Length formula counts exactly the sources the serialiser emits (every optional-field combination)", floor=24)
    r4 = run.rule("C02-R4", "build(): each property-length field is the size of the property list serialised after it", floor=10)
    if not lenacct.id_buffers_ok(F):
        r3.violation("IsPacketId", "an IsPacketId implementor's Buffer is not [u8; size_of::<Self>()]: size_of::<PacketIdType>() and the identifier bytes differ in length")
    acct = lenacct.Acct(F)
    for ver, kind, bfn in lenacct.builders(F):
        key = "%s::%s" % (ver, kind)
        try:
            rec = acct.run(ver, kind, bfn)
        except Exception as e:  # noqa
            r3.violation(key + "|explore", "cannot analyse %s: %r" % (bfn, e))
            continue
        fobj = F.fns[bfn]
        if rec["diff"]:
            d = rec["diff"][0]
            msg = ("build() counts [%s] which is not serialised, and does not count [%s] which is" % (d["only_in_build"], d["only_serialised"])) \
                if "only_in_build" in d else ("build() stores %s but the serialiser emits %s" % (d["build"], d["serialised"]))
            r3.violation(key, "%s::%s builder: %s: %s" % (ver, kind, d["why"], msg),
                         d, site="%s:%s" % (fobj["file"], fobj["line"]))
        elif rec["ok"]:
            r3.ok(key, {"paths": rec["ok"], "undecided_paths": len(rec["undecided"])})
        else:
            r3.violation(key + "|undecided", "%s::%s builder: no accepting path could be related to the serialiser (%s)" % (ver, kind, sorted(set(rec["undecided"]))[:3]))
        if rec["undecided"]:
            r3.note("%s: %d path(s) not decided: %s" % (key, len(rec["undecided"]), sorted(set(rec["undecided"]))[:2]))
        if rec["prop_diff"]:
            d = rec["prop_diff"][0]
            r4.violation(key, "%s::%s builder: a property-length field holds %s but the list serialised after it has %s" % (ver, kind, d["length"], d["list"]),
                         d, site="%s:%s" % (fobj["file"], fobj["line"]))
        elif rec["prop_ok"]:
            r4.ok(key, {"pairs": rec["prop_ok"]})

    # ------------------------------------------------------------------ R5: in-place length recomputation
    r5 = run.rule("C02-R5", "methods that recompute the length fields of an existing packet agree with its serialiser on every value a builder can produce", floor=1)
    bl = {(v, k): b for v, k, b in lenacct.builders(F)}
    for ver, kind, mfn in lenacct.mutators(F):
        key = "%s::%s::%s" % (ver, kind, mfn.split("::")[-1])
        if (ver, kind) not in bl:
            r5.violation(key, "no builder found for %s::%s (anchor lost)" % (ver, kind))
            continue
        try:
            rec = acct.run(ver, kind, bl[(ver, kind)], mutator=mfn)
        except Exception as e:  # noqa
            r5.violation(key + "|explore", "cannot analyse %s: %r" % (mfn, e))
            continue
        fobj = F.fns[mfn]
        if rec["diff"]:
            d = rec["diff"][0]
            r5.violation(key, "%s: after it runs, the Remaining Length counts [%s] which is not serialised and misses [%s] which is"
                         % (key, d.get("only_in_build", d["build"]), d.get("only_serialised", d["serialised"])), d, site="%s:%s" % (fobj["file"], fobj["line"]))
        elif rec["prop_diff"]:
            d = rec["prop_diff"][0]
            r5.violation(key, "%s: after it runs, a property-length field holds %s but the list serialised after it has %s" % (key, d["length"], d["list"]),
                         d, site="%s:%s" % (fobj["file"], fobj["line"]))
        elif rec["ok"]:
            r5.ok(key, {"composed_paths": rec["ok"]})
        else:
            r5.violation(key + "|undecided", "%s: no post-state could be related to the serialiser (%s)" % (key, sorted(set(rec["undecided"]))[:3]))

    # ------------------------------------------------------------------ R2
    r2 = run.rule("C02-R2", "size() = 1 + remaining_length.size() + remaining_length.to_u32(); enum dispatch forwards to the payload", floor=29)
    for ty, m in sorted(ps.items()):
        if not re.match(r"^mqtt::packet::(v3_1_1|v5_0)::", ty) or "size" not in m:
            continue
        key = "size:" + ty.split("<")[0].replace("mqtt::packet::", "")
        res = conn.paths(F, m["size"]["path"])
        rets = [conn.expand_all(res["interned"], p.ret) for p in res["paths"] if p.kind == "return"]
        ok = False
        if len(rets) == 1:
            s = repr(rets[0])
            ok = ("remaining_length" in s and "::size" in s and "::to_u32" in s and "('c', 1, 'usize')" in s and s.count("'Add'") == 2 and "'Mul'" not in s and "'Sub'" not in s)
        if ok:
            r2.ok(key)
        else:
            r2.violation(key, "%s::size is not 1 + remaining_length.size() + remaining_length.to_u32(): %s" % (ty, [conn.short(r)[:200] for r in rets]))
    # dispatchers
    for adt in (GP, GSP):
        variants = {v["name"]: v for v in F.adt(adt)["variants"]}
        for meth in ("size", "to_buffers", "to_continuous_buffer", "packet_type", "protocol_version"):
            cands = [f for f in F.fns.values() if f.get("name") == meth and f.get("impl_self", "").split("<")[0] == adt]
            for f in cands:
                # enum_dispatch-generated or hand-written match: each arm must call the payload's same-named method
                res = conn.paths(F, f["path"])
                seen = {}
                for p in res["paths"]:
                    if p.kind != "return":
                        continue
                    var = None
                    for k, c in p.cons.items():
                        if k[0] == "discr" and k[2] == adt and c[0] == "eq":
                            var = F.variant_by_idx(adt, c[1])["name"]
                    cs = [e for e in p.effects if e[0] == "call"]
                    seen.setdefault(var, []).append([e[1] for e in cs])
                key = "dispatch:%s::%s" % (adt.split("::")[-1], meth)
                bad = None
                for vn, v in variants.items():
                    pty = v["fields"][0]["ty"].split("<")[0]
                    calls = seen.get(vn)
                    if not calls:
                        bad = "%s: no path for variant %s" % (key, vn)
                        break
                    for cl in calls:
                        hits = [c for c in cl if c.split("::")[-1] == meth]
                        if meth in ("packet_type", "protocol_version") and not hits:
                            continue  # hand-written constant tables are checked under C11-R1b / C03
                        if not hits or not any(pty.split("::")[-1].replace("Generic", "") in h or pty in h or "GenericPacketTrait" in h for h in hits):
                            bad = "%s: variant %s forwards to %s (payload %s)" % (key, vn, cl, pty)
                if bad:
                    r2.violation(key, bad)
                else:
                    r2.ok(key, {"variants": len(variants)})
