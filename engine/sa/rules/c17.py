"""C17 - receive gating by role; protocol-version auto-detection.

R1/R2  exact table role x version x packet-type nibble: outcome of process_recv_packet (handler reached,
       or error-only) extracted from MIR with the receive handlers stubbed; compared with
       spec/role_matrix.json (peer-may-send); reached handler = (version, kind of nibble).
R3     CONNECT / CONNACK arriving on an established connection (status = Connected at entry): every path
       reports a protocol error and writes no session-scope field.
R4     adoption: under Version::Undetermined only nibble 1 proceeds; level byte 4/5 assigns protocol_version
       and calls exactly the fixed-version handler with no other field written before; protocol_version is
       written nowhere else.
"""
import json
import os

import conn
from report import VERIF

SESSION_FIELDS = ["pid_man", "pid_puback", "pid_pubrec", "pid_pubcomp", "store", "qos2_publish_handled", "need_store"]


def check(run, F, tier):
    run.explanation = ("Exact extraction: process_recv_packet explored over role consts x version x nibble with handlers "
                       "stubbed; handshake handlers explored with status=Connected at entry; who-may-write scan of "
                       "protocol_version over all MIR bodies of the crate.")
    spec = json.load(open(os.path.join(VERIF, "spec", "role_matrix.json")))
    ms = conn.gc_methods(F)
    nib = spec["nibble"]
    kind_of = {v: k for k, v in nib.items()}
    res = conn.paths(F, ms["process_recv_packet"]["path"], tag="recv-handlers")
    pt_terms = set()
    for p in res["paths"]:
        for e in p.effects:
            if e[0] == "call" and e[1].endswith("RawPacket::packet_type"):
                pt_terms.add(e[4][1])
    if len(pt_terms) != 1:
        run.fail_closed("packet_type anchor: %d distinct terms" % len(pt_terms))
        return
    pt = list(pt_terms)[0]
    ver_t = ("discr", conn.field_term("protocol_version", F), conn.VERSION)
    vdis = {n: d for d, n in conn.enum_domain(F, conn.VERSION).items()}

    def peer_may_send(ver, kind, role):
        s = spec["send"][ver]
        if role == "Client":
            return kind in s["server"]
        if role == "Server":
            return kind in s["client"]
        return kind in s["server"] or kind in s["client"]

    r1 = run.rule("C17-R1", "receive gate + dispatch: role x version x nibble outcome equals the MQTT table", floor=144, kind="E")
    for role in ("Client", "Server", "Any"):
        for vname, ver in (("V3_1_1", "v3_1_1"), ("V5_0", "v5_0"), ("Undetermined", None)):
            for n in range(16):
                env = conn.role_env(F, role)
                env[ver_t] = vdis[vname]
                env[pt] = n
                outs = set()
                for p in res["paths"]:
                    if p.kind != "return" or not conn.feasible(p, env):
                        continue
                    # ignore the oversize branch (C14-R5): it is a refusal for another reason
                    stubs = [e[1].split("::")[-1] for e in p.effects if e[0] == "stub"]
                    ev = p.events() or ()
                    if any(e[0] == "enter" and e[1].endswith("process_send_v5_0_disconnect") for e in p.effects):
                        continue
                    if stubs:
                        outs.add("handler:" + ",".join(stubs))
                    else:
                        outs.add("error:" + ",".join(conn.ev_name(e) for e in ev))
                key = "%s/%s/%d" % (role, vname, n)
                kind = kind_of.get(n)
                if ver is None:
                    # undetermined: only CONNECT proceeds (to adoption, R4); everything else error-only
                    if n == 1 and role in ("Server", "Any"):
                        good = outs and all(o.startswith("handler:process_recv_v") and o.endswith("_connect") or o.startswith("error:NotifyError") for o in outs) \
                            and any(o.startswith("handler:") for o in outs)
                    else:
                        good = outs and all(o.startswith("error:NotifyError(") and "," not in o for o in outs)
                    if good:
                        r1.ok(key, sorted(outs))
                    else:
                        r1.violation(key, "undetermined-version receive of nibble %d for role %s: %s" % (n, role, sorted(outs)))
                    continue
                want = kind is not None and kind in spec["send"][ver]["client"] + spec["send"][ver]["server"] and peer_may_send(ver, kind, role)
                if want:
                    exp = {"handler:process_recv_%s_%s" % (ver, kind)}
                    if outs == exp:
                        r1.ok(key, sorted(outs))
                    else:
                        r1.violation(key, "role %s %s nibble %d (%s) must reach %s, extracted %s" % (role, vname, n, kind, sorted(exp), sorted(outs)))
                else:
                    good = outs and all(o in ("error:NotifyError(ProtocolError)", "error:NotifyError(MalformedPacket)") for o in outs)
                    if good:
                        r1.ok(key, sorted(outs))
                    else:
                        r1.violation(key, "role %s %s nibble %d (%s) must be reported as an error and reach no handler, extracted %s" % (role, vname, n, kind, sorted(outs)))
    run.cov_extra["exhaustive"] = True

    # ------------------------------------------------------------------ R3
    r3 = run.rule("C17-R3", "CONNECT/CONNACK on an established connection: protocol error, session state untouched", floor=4)
    recvh = conn.handlers(F, "process_recv")
    for (ver, kind), f in sorted(recvh.items()):
        if kind not in ("connect", "connack"):
            continue
        rs = conn.paths(F, f["path"])
        bad = {}
        n = 0
        for p in rs["paths"]:
            if p.kind != "return":
                continue
            if "Connected" not in conn.status_at_entry(F, p):
                continue
            n += 1
            w = conn.word(p) or []
            has_err = any(x.startswith("NotifyError") for x in w)
            delivered = "NotifyPacketReceived" in w
            sess = sorted({fld for fld, how, e in conn.effective_writes(F, p) if fld in SESSION_FIELDS})
            if not has_err or delivered or sess:
                reason = []
                if not has_err:
                    reason.append("no error event")
                if delivered:
                    reason.append("packet delivered")
                if sess:
                    reason.append("writes session field(s) " + ",".join(sess))
                bad.setdefault("; ".join(reason), p)
        key = f["name"]
        if n == 0:
            r3.violation(key, "no path of %s is feasible with status=Connected at entry (anchor lost)" % f["name"])
        elif bad:
            for reason, p in sorted(bad.items()):
                r3.violation(key + "/" + reason, "%s with status=Connected at entry: %s" % (f["name"], reason), conn.path_summary(p),
                             site="%s:%s" % (f["file"], f["line"]))
        else:
            r3.ok(key, {"paths_with_connected_entry": n})

    # ------------------------------------------------------------------ R4
    r4 = run.rule("C17-R4", "version adoption: only from CONNECT level byte 4/5, nothing else written first; protocol_version written nowhere else", floor=3)
    fidx = conn.gc_fields(F)["protocol_version"]["i"]
    env = {ver_t: vdis["Undetermined"]}
    adopt = {}
    for p in res["paths"]:
        if p.kind != "return" or not conn.feasible(p, env):
            continue
        stubs = [e for e in p.effects if e[0] == "stub"]
        if not stubs:
            continue
        # effects before the stub
        pre = p.effects[:p.effects.index(stubs[0])]
        writes = [(conn.field_of_write(e), e[3]) for e in pre if e[0] == "write" and e[1] == ("self",)]
        adopt.setdefault(stubs[0][1].split("::")[-1], []).append((p, writes))
    for hname, want in (("process_recv_v3_1_1_connect", "V3_1_1"), ("process_recv_v5_0_connect", "V5_0")):
        lst = adopt.get(hname, [])
        if not lst:
            r4.violation(hname, "no adoption path reaches %s from an undetermined server" % hname)
            continue
        bad = None
        lvl = 4 if want == "V3_1_1" else 5
        for p, writes in lst:
            if len(writes) != 1 or writes[0][0] != "protocol_version" or writes[0][1] != ("agg", conn.VERSION, want, ()):
                bad = (p, writes)
            # the decision is taken on the protocol level byte itself - byte 6 of the CONNECT body - and pins it to 4 / 5:
            # a comparison through a mask or any other function of the byte would adopt other levels too
            exact = False
            for k, c in p.cons.items():
                if c == ("eq", lvl):
                    ke = conn.expand_all(res["interned"], k)
                    if ke[0] == "init" and ke[2] and ke[2][-1] == ("ci", 6) and "data_as_slice" in repr(ke[1]):
                        exact = True
                    elif ke[0] == "index" and ke[-1] == 6 and "data_as_slice" in repr(ke):
                        exact = True
            if not exact and bad is None:
                bad = (p, [("level-byte", ("c", lvl, "u8"))])
        if bad and bad[1] and bad[1][0][0] == "level-byte":
            r4.violation(hname + "/level", "adoption of %s is not decided by `level byte == %d` on the raw byte 6 of the CONNECT body (a masked or derived "
                         "value would adopt other protocol levels as well)" % (want, lvl), conn.path_summary(bad[0]))
        elif bad:
            r4.violation(hname, "adoption path to %s writes %s before the handler (expected exactly protocol_version = %s)" % (
                hname, [(w[0], conn.short(w[1])) for w in bad[1]], want), conn.path_summary(bad[0]))
        else:
            r4.ok(hname, {"paths": len(lst), "assigns": want})
    # latched: process_recv_packet assigns protocol_version once, before the adopted handler, and on no other path - a later
    # write (a roll-back after a refused CONNECT, a re-detection on a fixed-version connection) un-latches the version
    relatch = None
    for p in res["paths"]:
        if p.kind != "return":
            continue
        stubs = [i for i, e in enumerate(p.effects) if e[0] == "stub"]
        start = stubs[0] if (stubs and conn.feasible(p, env)) else 0
        late = [e for e in p.effects[start:] if e[0] == "write" and e[1] == ("self",) and conn.field_of_write(e) == "protocol_version"]
        if late:
            relatch = (p, late[0])
    if relatch:
        r4.violation("latched", "process_recv_packet writes protocol_version = %s %s: the version adopted from the first CONNECT is not kept" % (
            conn.short(relatch[1][3]), "after the CONNECT handler ran" if any(e[0] == "stub" for e in relatch[0].effects) else "on a path that adopts nothing"),
            conn.path_summary(relatch[0]))
    else:
        r4.ok("latched", "protocol_version written only by the adoption assignment")
    extra = [h for h in adopt if h not in ("process_recv_v3_1_1_connect", "process_recv_v5_0_connect")]
    if extra:
        r4.violation("extra-adoption", "undetermined server reaches handlers other than CONNECT: %s" % extra)
    # who may write protocol_version
    extra, writers = conn.offending_writers(F, "protocol_version", {"new", "process_recv_packet"})
    if not extra and writers - {"new"}:
        r4.ok("who-may-write", sorted(writers))
    else:
        r4.violation("who-may-write", "protocol_version is written by %s (expected only new and process_recv_packet, or private helpers of theirs)" % sorted(extra or writers))
    conn.prune_path_cache(F)
