"""C16 - exported session state restores the session (narrow structural claim).

R1  export is unfiltered: get_stored_packets returns store.get_stored() (values().cloned().collect() of the
    store map); get_qos2_publish_handled clones the field; restore_qos2_publish_handled assigns it.
R2  restore_packets repeats, per GenericStorePacket variant, the bookkeeping an accepted send performs:
    id registered, inserted into the awaiting set matching kind and QoS (QoS1 -> pid_puback, QoS2 ->
    pid_pubrec, PUBREL -> pid_pubcomp: the same sets the send handlers use), added to the store; QoS 0
    skipped; failed registration does not add to the store.
R3  restored exchanges are counted against Receive Maximum when re-sent (C12-R1's send_stored instance).
R4  the connect / resume path (initialize, CONNECT handlers without clean start, notify_closed of a stored session) leaves
    the restored state untouched.
R5  the store keeps acceptance order (no order-disturbing IndexMap operation), so the export and the retransmission after
    a restore are in the original order.
"""
import conn

GSP = "mqtt::packet::enum_store_packet::GenericStorePacket"


def check(run, F, tier):
    run.explanation = "Structural agreement between export/restore and the send path's bookkeeping, from the abstract paths of restore_packets and the send handlers. Equivalence with the uncrashed run is not decided."
    ms = conn.gc_methods(F)
    sendh = conn.handlers(F, "process_send")
    r1 = run.rule("C16-R1", "export / import of session state is unfiltered", floor=3)
    # get_stored_packets -> store.get_stored
    f = ms["get_stored_packets"]
    res = conn.paths(F, f["path"])
    ok = False
    for p in res["paths"]:
        if p.kind == "return" and p.ret and p.ret[0] == "sym" and p.ret[1][0] == "call" and p.ret[1][1].endswith("GenericStore::<PacketIdType>::get_stored") \
                and "store" in repr(p.ret[1][2]):
            ok = True
    if ok and len([p for p in res["paths"] if p.kind == "return"]) == 1:
        r1.ok("get_stored_packets")
    else:
        r1.violation("get_stored_packets", "get_stored_packets does not return store.get_stored() unconditionally")
    gs = [g for g in F.fns.values() if g["path"].endswith("GenericStore::<PacketIdType>::get_stored")]
    names = []
    for g in gs:
        for b in g["blocks"]:
            t = b["term"]
            if t["k"] == "call" and "fn" in t["func"].get("const", {}):
                names.append(t["func"]["const"]["fn"]["name"])
    # every stored value, in map order, unfiltered: the body reads the map through `values()` (or `iter()`), never filters /
    # skips / takes / reverses, and clones what it yields (iterator chain or explicit loop)
    ALLOWED = {"values", "iter", "cloned", "collect", "map", "clone", "len", "with_capacity", "into_iter", "next", "push", "new", "to_vec", "extend", "copied"}
    FORBID = {"filter", "filter_map", "skip", "take", "rev", "step_by", "skip_while", "take_while", "retain", "sort", "dedup", "truncate", "pop", "remove", "swap_remove"}
    if gs and ("values" in names or "iter" in names) and ("cloned" in names or "clone" in names) and not (set(names) & FORBID) and set(names) <= ALLOWED:
        r1.ok("GenericStore::get_stored", names)
    else:
        r1.violation("GenericStore::get_stored", "GenericStore::get_stored does not return every stored value in map order (values().cloned().collect() or an equivalent loop): %s" % names)
    f = ms["get_qos2_publish_handled"]
    res = conn.paths(F, f["path"])
    rets = [p.ret for p in res["paths"] if p.kind == "return"]
    if len(rets) == 1 and rets[0] == ("sym", conn.field_term("qos2_publish_handled", F)):
        r1.ok("get_qos2_publish_handled")
    else:
        r1.violation("get_qos2_publish_handled", "get_qos2_publish_handled does not return a clone of the field: %s" % [conn.short(r) for r in rets])
    f = ms["restore_qos2_publish_handled"]
    res = conn.paths(F, f["path"])
    okr = False
    for p in res["paths"]:
        ws = [e for e in p.effects if e[0] == "write" and conn.field_of_write(e) == "qos2_publish_handled"]
        if p.kind == "return" and len(ws) == 1 and ws[0][3] == ("sym", ("arg", "pids")):
            okr = True
    if okr:
        r1.ok("restore_qos2_publish_handled")
    else:
        r1.violation("restore_qos2_publish_handled", "restore_qos2_publish_handled does not assign its argument to the field")

    # ------------------------------------------------------------------ R2
    r2 = run.rule("C16-R2", "restore_packets repeats the send path's bookkeeping per variant", floor=6)
    # sets used by the send handlers (reference extracted from the send side)
    def send_sets(f, qos=None):
        out = set()
        for p in conn.paths(F, f["path"])["paths"]:
            if p.kind != "return" or conn.errors(p):
                continue
            if qos and conn.qos_of(F, p) != {qos}:
                continue
            for i, e in conn.calls(p, "HashSet::<T, S, A>::insert"):
                for s in ("pid_puback", "pid_pubrec", "pid_pubcomp"):
                    if s in repr(e[3][0]):
                        out.add(s)
        return out
    want = {}
    for ver, V in (("v3_1_1", "V3_1_1"), ("v5_0", "V5_0")):
        want[(V + "Publish", "AtLeastOnce")] = send_sets(sendh[(ver, "publish")], "AtLeastOnce")
        want[(V + "Publish", "ExactlyOnce")] = send_sets(sendh[(ver, "publish")], "ExactlyOnce")
        want[(V + "Pubrel", None)] = send_sets(sendh[(ver, "pubrel")])
    f = ms["restore_packets"]
    res = conn.paths(F, f["path"])
    interned = res["interned"]
    seen = {}
    problems = {}
    for p in res["paths"]:
        if p.kind != "return":
            continue
        # exactly one element processed: next() -> Some, then next() -> None
        nx = [e for _, e in conn.calls(p, "::next")]
        if len(nx) != 2:
            continue
        var = None
        for k, c in p.cons.items():
            if k[0] == "discr" and k[2] == GSP and c[0] == "eq":
                var = F.variant_by_idx(GSP, c[1])["name"]
        if var is None:
            continue
        q = None
        if var.endswith("Publish"):
            qs = conn.qos_of(F, p)
            if len(qs) != 1:
                continue
            q = list(qs)[0]
        ins = set()
        for i, e in conn.calls(p, "HashSet::<T, S, A>::insert"):
            for s in ("pid_puback", "pid_pubrec", "pid_pubcomp"):
                if s in repr(e[3][0]):
                    ins.add(s)
        reg = conn.calls(p, "PacketIdManager::<T>::register_id")
        add = conn.calls(p, "GenericStore::<PacketIdType>::add")
        regok = None
        for _, e in conn.calls(p, "Result::<T, E>::is_ok"):
            regok = conn.truth(p, e)
        key = (var, q)
        rec = seen.setdefault(key, {"paths": 0})
        rec["paths"] += 1
        if q == "AtMostOnce":
            if reg or add or ins:
                problems.setdefault("%s QoS 0 entry is not skipped" % var, p)
            continue
        w = want.get(key)
        if w is None:
            continue
        if ins != w:
            problems.setdefault("%s/%s: restore inserts into %s, the send path uses %s" % (var, q, sorted(ins), sorted(w)), p)
        if not reg:
            problems.setdefault("%s/%s: id is not registered with the id manager" % (var, q), p)
        if regok is True and not add:
            problems.setdefault("%s/%s: registered but not added to the store" % (var, q), p)
        if regok is False and add:
            problems.setdefault("%s/%s: added to the store although registration failed" % (var, q), p)
    for key in want:
        if key not in seen:
            problems.setdefault("no restore path for %s/%s (anchor lost)" % key, None)
    for pr, p in sorted(problems.items()):
        r2.violation("restore_packets/" + pr, "restore_packets: " + pr, conn.path_summary(p) if p else None, site="%s:%s" % (f["file"], f["line"]))
    if not problems:
        for key, rec in sorted(seen.items(), key=lambda x: str(x[0])):
            r2.ok("%s/%s" % key, {"paths": rec["paths"], "sets": sorted(want.get(key, []))})

    r3 = run.rule("C16-R3", "restored exchanges are counted when re-sent (send_stored increments under Receive Maximum)", floor=1)
    f = ms["send_stored"]
    res = conn.paths(F, f["path"])
    maxt = conn.field_term("publish_send_max", F)
    bad = None
    n = 0
    for p in res["paths"]:
        if p.kind != "return" or not conn.pushes(p, "RequestSendPacket"):
            continue
        n += 1
        if conn.possible(F, p, maxt, "std::option::Option") == {"Some"}:
            incs = [e for e in p.effects if conn.field_of_write(e) == "publish_send_count"]
            sat = any(k[0] == "cmp" and k[1] == "Lt" and c == ("eq", 0) and "publish_send_count" in repr(k[2]) for k, c in p.cons.items())
            if not incs and not sat:
                bad = p
        elif conn.possible(F, p, maxt, "std::option::Option") != {"None"}:
            bad = p
    if bad or n == 0:
        r3.violation("send_stored", "restored/stored packets are re-sent without being counted against Receive Maximum", conn.path_summary(bad) if bad else None)
    else:
        r3.ok("send_stored", {"paths": n})

    # ------------------------------------------------------------------ R4: what was restored survives until the resume
    # Between restore_packets / restore_qos2_publish_handled and the session-present resume the application connects:
    # that path (initialize; the CONNECT handlers without clean start; the CONNACK handlers with session present;
    # notify_closed of a stored session) must leave the restored session state - the store, the QoS 2 handled set and
    # the awaiting-acknowledgement sets - exactly as it is.
    import modref
    r4 = run.rule("C16-R4", "the connect / resume path leaves the restored session state (store, handled ids, awaited acks) untouched", floor=6)
    N = modref.Norm(F)
    KEEP = ["store", "qos2_publish_handled", "pid_puback", "pid_pubrec", "pid_pubcomp"]
    recvh = conn.handlers(F, "process_recv")

    def flag_val(p, method):
        for e in p.effects:
            if e[0] == "call" and e[1].endswith("::" + method):
                c = p.cons.get(e[4][1])
                if c == ("eq", 1):
                    return True
                if c == ("eq", 0):
                    return False
        return None
    cases = [(ms["initialize"], None, None), (ms["notify_closed"], "need_store", True),
             (sendh[("v3_1_1", "connect")], "clean_start", False), (sendh[("v5_0", "connect")], "clean_start", False),
             (recvh[("v3_1_1", "connect")], "clean_session", False), (recvh[("v5_0", "connect")], "clean_start", False)]
    for fobj, meth, val in cases:
        pv = N.post_values(fobj["path"])
        cnt = 0
        badf = {}
        for p, cur in pv:
            if any(x.startswith("NotifyError") for x in (conn.word(p) or [])):
                continue
            if meth == "need_store":
                if conn.bool_field_at_entry(F, p, "need_store") != {True}:
                    continue
            elif meth is not None and flag_val(p, meth) is not val:
                continue
            cnt += 1
            for n_ in KEEP:
                if cur.get(n_) != ("FIELD", n_):
                    # emptying an awaiting set on close is fine only when the ids go back as well; here: any change is reported
                    badf.setdefault(n_, (p, cur.get(n_)))
        key = "%s%s" % (fobj["name"], ("/%s=%s" % (meth, val)) if meth else "")
        if cnt == 0:
            r4.violation(key, "no resume-side path found in %s (anchor lost)" % fobj["name"])
            continue
        if badf:
            for n_, (p, v) in sorted(badf.items()):
                r4.violation("%s/%s" % (key, n_), "%s (%s) changes restored session state: %s becomes %s before the session is resumed"
                             % (fobj["name"], "always" if not meth else "%s=%s" % (meth, val), n_, v), conn.path_summary(p), site="%s:%s" % (fobj["file"], fobj["line"]))
        else:
            r4.ok(key, {"paths": cnt})

    # ------------------------------------------------------------------ R5: export order = acceptance order
    r5 = run.rule("C16-R5", "the store (exported as it is) keeps acceptance order: no order-disturbing operation in GenericStore", floor=1)
    import re as _re
    bad5, n5 = [], 0
    for g in F.fns.values():
        if not g.get("impl_self", "").startswith("mqtt::connection::store::GenericStore<") and not (g.get("kind") == "Closure" and "connection::store::" in g["path"]):
            continue
        for b in g["blocks"]:
            t = b["term"]
            if t["k"] == "call" and "fn" in t["func"].get("const", {}):
                fi = t["func"]["const"]["fn"]
                if fi["path"].startswith("indexmap::"):
                    n5 += 1
                    if _re.search(r"::(swap_remove\w*|swap_indices|move_index|sort\w*|reverse|pop|swap_take)$", fi["path"]):
                        bad5.append((g["path"].split("::")[-1], fi["path"]))
    if bad5:
        for fn_, op_ in bad5:
            r5.violation("%s@%s" % (op_.split("::")[-1], fn_), "GenericStore::%s calls %s: exported / retransmitted packets are no longer in acceptance order" % (fn_, op_))
    elif n5 == 0:
        r5.violation("anchor", "no IndexMap operation found in GenericStore (anchor lost)")
    else:
        r5.ok("indexmap-ops", {"indexmap_calls": n5})
    conn.prune_path_cache(F)
