"""C15 - keep-alive timer requests are consistent and complete.

R1  flag <=> armed: per timer kind K the armed-flag field mirrors the event stream on every path of every
    handler / public method: a Cancel(K) is pushed only where the flag is known true, and at exit the flag
    equals "last K event was a Reset"; notify_timer_fired(K) clears flag K.
R2  none armed after close / DISCONNECT / refusing CONNACK: all three flags false at exit, no Reset after.
R3  no send-side / setter call arms a timer while the connection may be Disconnected.
R4  interval priority in send_post_process (exact decision table).
R5  server refresh: delivered packets of kinds a server accepts call refresh_pingreq_recv first; refresh
    is guarded by a non-zero timeout.
R6  PINGREQ send arms PingrespRecv exactly when the timeout is non-zero; PINGRESP receive cancels under flag.
R7  expiry effects (exact table over kind x version x status).
"""
import conn
from facts import FactError

KINDS = ["PingreqSend", "PingreqRecv", "PingrespRecv"]


def timer_ev(e):
    """('Reset'|'Cancel', K) for a timer event value, else None."""
    if conn.is_event(e, "RequestTimerReset") and e[3] and e[3][0][0] == "agg":
        return ("Reset", e[3][0][2])
    if conn.is_event(e, "RequestTimerCancel") and e[3] and e[3][0][0] == "agg":
        return ("Cancel", e[3][0][2])
    return None


def discover_flags(F, all_paths):
    """flag field for kind K = the bool field assigned true on the paths that push Reset(K).  A path that re-arms a timer
    whose flag it knows to be set already (`was_running`) writes nothing: only paths that do write a `true` vote, and a
    field must be written on every such path."""
    cand = {k: None for k in KINDS}
    for p in all_paths:
        pushed = {timer_ev(e[2])[1] for e in p.effects if e[0] == "push" and timer_ev(e[2]) and timer_ev(e[2])[0] == "Reset"}
        if not pushed:
            continue
        true_writes = {conn.field_of_write(e) for e in p.effects if e[0] == "write" and e[1] == ("self",) and e[3] == ("c", 1, "bool")}
        if not true_writes:
            continue
        for k in pushed:
            if cand[k] is None:
                cand[k] = set(true_writes)
            elif cand[k] & true_writes:
                cand[k] = cand[k] & true_writes
    out = {}
    for k, s in cand.items():
        if not s:
            raise FactError("cannot discover the armed-flag field of timer %s (candidates %s)" % (k, s))
        # disambiguate: a flag common to several kinds is not specific
        out[k] = s
    # remove fields that are candidates for every kind; expect exactly one each
    for k in KINDS:
        others = set().union(*[out[j] for j in KINDS if j != k])
        spec = out[k] - others if len(out[k]) > 1 else out[k]
        if len(spec) != 1:
            raise FactError("armed-flag field of timer %s ambiguous: %s" % (k, sorted(out[k])))
        out[k] = list(spec)[0]
    return out


def path_bool(p, v):
    """Truth of a boolean value under the path's constraints (a flag assigned `secs != 0` is decided by the branch the
    path later takes on the same comparison): True / False / None."""
    if v[0] == "c":
        return v[1] == 1
    if v[0] != "sym":
        return None
    t = v[1]
    if t[0] == "not":
        r = path_bool(p, t[1])
        return None if r is None else (not r)
    if t[0] == "cmp" and len(t) == 4:
        # constraints are kept on the canonical atoms Eq(a, b) / Lt(a, b)
        op, a, b = t[1], t[2], t[3]
        neg = False
        if op == "Ne":
            op, neg = "Eq", True
        elif op == "Gt":
            op, a, b = "Lt", b, a
        elif op == "Ge":
            op, neg = "Lt", True
        elif op == "Le":
            op, a, b, neg = "Lt", b, a, True
        r = conn.truth(p, (None, None, None, None, ("sym", ("cmp", op, a, b))))
        if r is None and op == "Eq":
            r = conn.truth(p, (None, None, None, None, ("sym", ("cmp", op, b, a))))
        return None if r is None else (r != neg)
    return conn.truth(p, (None, None, None, None, v))


def walk_flags(F, p, flags):
    """Replay the path: returns (violations, final flag values, last event per kind)."""
    inv = {v: k for k, v in flags.items()}
    cur = {}
    for k, fld in flags.items():
        s = conn.bool_field_at_entry(F, p, fld)
        cur[k] = (True if s == {True} else False if s == {False} else None)
    last = {}
    prev = {}
    problems = []
    for e in p.effects:
        if e[0] == "write" and e[1] == ("self",):
            fld = conn.field_of_write(e)
            if fld in inv:
                v = e[3]
                prev[inv[fld]] = cur[inv[fld]]
                cur[inv[fld]] = path_bool(p, v)
        elif e[0] == "push":
            te = timer_ev(e[2])
            if te:
                kind, k = te
                # idiom: `if flag { flag = false; push(Cancel) }` - the flag was true just before its clear
                armed = cur.get(k) is True or (cur.get(k) is False and prev.get(k) is True)
                if kind == "Cancel" and not armed:
                    problems.append("RequestTimerCancel(%s) pushed where %s is not known to be true" % (k, flags[k]))
                last[k] = kind
        elif e[0] == "stub":
            for k in cur:
                cur[k] = None
    return problems, cur, last


def check(run, F, tier):
    run.explanation = ("Timer-flag invariant, exit valuations and decision tables evaluated on the abstract paths of every "
                       "handler and public method (path-sensitive MIR exploration, all paths).")
    ms = conn.gc_methods(F)
    recvh = conn.handlers(F, "process_recv")
    sendh = conn.handlers(F, "process_send")
    entries = {}
    for f in list(recvh.values()) + list(sendh.values()):
        entries[f["name"]] = f
    for n in ("notify_timer_fired", "notify_closed", "set_pingreq_send_interval", "cancel_timers", "send_post_process",
              "refresh_pingreq_recv", "send_stored", "handle_v5_0_error", "release_packet_id", "erase_stored_publish"):
        if n in ms:
            entries[n] = ms[n]
    allp = {}
    allint = {}
    for n, f in entries.items():
        res_n = conn.paths(F, f["path"])
        allp[n] = [p for p in res_n["paths"] if p.kind == "return"]
        allint[n] = res_n["interned"]
    flat = [p for ps in allp.values() for p in ps]
    flags = discover_flags(F, flat)
    run.cov_extra["flags"] = flags

    # ------------------------------------------------------------------ R1
    r1 = run.rule("C15-R1", "armed flag mirrors the Reset/Cancel stream on every path (inductive invariant)", floor=48)
    for n, ps in sorted(allp.items()):
        bad = {}
        for p in ps:
            problems, cur, last = walk_flags(F, p, flags)
            for k, kind in last.items():
                want = (kind == "Reset")
                if cur.get(k) is not want:
                    problems.append("at exit %s=%s but the last %s event is %s" % (flags[k], cur.get(k), k, kind))
            for pr in problems:
                bad.setdefault(pr, p)
        if bad:
            for pr, p in sorted(bad.items()):
                r1.violation("%s/%s" % (n, pr), "%s: %s" % (n, pr), conn.path_summary(p), site="%s:%s" % (entries[n]["file"], entries[n]["line"]))
        else:
            r1.ok(n, {"paths": len(ps)})
    # notify_timer_fired(K) clears flag K
    for p in allp["notify_timer_fired"]:
        ks = conn.possible(F, p, ("arg", "kind"), conn.TIMERKIND)
        if len(ks) != 1:
            r1.violation("notify_timer_fired/kind-split", "a path of notify_timer_fired does not discriminate the timer kind", conn.path_summary(p))
            continue
        k = list(ks)[0]
        # nothing observable (state write, event, opaque call) may precede the clearing; entering a private helper is not observable
        first = [e for e in p.effects if e[0] in ("write", "push", "call")]
        w = [e for e in p.effects if e[0] == "write" and conn.field_of_write(e) == flags[k]]
        if not w or w[0][3] != ("c", 0, "bool") or (first and first[0] is not w[0]):
            r1.violation("notify_timer_fired/clear/" + k, "notify_timer_fired(%s) does not clear %s before anything else" % (k, flags[k]), conn.path_summary(p))
    r1.ok("notify_timer_fired/clears", flags)

    # ------------------------------------------------------------------ R2
    r2 = run.rule("C15-R2", "no timer armed after close / DISCONNECT / refusing CONNACK", floor=5)
    targets = [("notify_closed", lambda p, w: True)]
    for (ver, kind), f in sendh.items():
        if kind == "disconnect":
            targets.append((f["name"], lambda p, w: "RequestSendPacket" in w))
        if kind == "connack":
            targets.append((f["name"], lambda p, w: "RequestSendPacket" in w and "RequestClose" in w))
    for n, pred in sorted(targets):
        bad = {}
        cnt = 0
        for p in allp[n]:
            w = conn.word(p) or []
            if not pred(p, w):
                continue
            cnt += 1
            problems, cur, last = walk_flags(F, p, flags)
            for k in KINDS:
                if cur.get(k) is not False:
                    bad.setdefault("%s may remain %s at exit" % (flags[k], cur.get(k)), p)
                if last.get(k) == "Reset":
                    bad.setdefault("a Reset(%s) is the last %s event" % (k, k), p)
        if cnt == 0:
            r2.violation(n, "no closing path found in %s" % n)
        elif bad:
            for pr, p in sorted(bad.items()):
                r2.violation("%s/%s" % (n, pr), "%s: %s" % (n, pr), conn.path_summary(p))
        else:
            r2.ok(n, {"closing_paths": cnt})

    # ------------------------------------------------------------------ R3
    r3 = run.rule("C15-R3", "send-side calls and setters never arm a timer while the connection may be Disconnected", floor=24)
    local = [f["name"] for f in sendh.values()] + ["set_pingreq_send_interval"]
    for n in sorted(local):
        bad = {}
        for p in allp[n]:
            sts = conn.status_at_entry(F, p)
            cur = set(sts)
            for e in p.effects:
                if e[0] == "write" and conn.field_of_write(e) == "status":
                    v = e[3]
                    cur = {v[2]} if v[0] == "agg" else {"Disconnected", "Connecting", "Connected"}
                elif e[0] == "push":
                    te = timer_ev(e[2])
                    if te and te[0] == "Reset" and "Disconnected" in cur:
                        bad.setdefault("RequestTimerReset(%s) with status possibly Disconnected" % te[1], p)
        if bad:
            for pr, p in sorted(bad.items()):
                r3.violation("%s/%s" % (n, pr), "%s: %s" % (n, pr), conn.path_summary(p), site="%s:%s" % (entries[n]["file"], entries[n]["line"]))
        else:
            r3.ok(n)

    # ------------------------------------------------------------------ R4
    r4 = run.rule("C15-R4", "PINGREQ interval priority: user override, then Server Keep Alive, then CONNECT keep-alive; 0 disables; clients only", floor=6, kind="E")
    OPT = "std::option::Option"
    ut = conn.field_term("pingreq_user_send_interval_ms", F)
    st_ = conn.field_term("pingreq_server_keep_alive_ms", F)
    kt = conn.field_term("pingreq_keep_alive_ms", F)
    for p in allp["send_post_process"]:
        isc = conn.bool_field_at_entry(F, p, "is_client")
        resets = [e[2] for e in p.effects if e[0] == "push" and timer_ev(e[2]) and timer_ev(e[2]) == ("Reset", "PingreqSend")]
        u = conn.possible(F, p, ut, OPT)
        s = conn.possible(F, p, st_, OPT)
        key = "client=%s/user=%s/server=%s/%s" % (sorted(isc), sorted(u), sorted(s), "reset" if resets else "noreset")
        if isc == {False}:
            if resets:
                r4.violation(key, "send_post_process arms PingreqSend although is_client is false", conn.path_summary(p))
            else:
                r4.ok(key)
            continue
        if isc != {True}:
            r4.violation(key, "send_post_process path does not test is_client", conn.path_summary(p))
            continue
        if u == {"Some"}:
            src = ut + ()
            want = ("field", ut, 0)
        elif u == {"None"} and s == {"Some"}:
            want = ("field", st_, 0)
        elif u == {"None"} and s == {"None"}:
            want = kt
        else:
            r4.violation(key, "send_post_process path does not decide the override / Server Keep Alive options", conn.path_summary(p))
            continue
        # guard: duration > 0 decided on the path
        gz = conn.decide(p, allint["send_post_process"], ("c", 0, "u64"), "lt", ("sym", want))
        if gz is None:
            r4.violation(key, "no `> 0` test on the selected interval %s" % conn.short(want), conn.path_summary(p))
            continue
        if gz != bool(resets):
            r4.violation(key, "interval %s >0=%s but reset pushed=%s" % (conn.short(want), gz, bool(resets)), conn.path_summary(p))
            continue
        if resets:
            dur = resets[0][3][1]
            if dur != ("sym", want):
                r4.violation(key, "PingreqSend reset uses duration %s, expected %s" % (conn.short(dur), conn.short(want)), conn.path_summary(p))
                continue
        r4.ok(key, conn.short(want))

    # ------------------------------------------------------------------ R5
    r5 = run.rule("C15-R5", "server keep-alive refresh on every accepted packet (kinds a server receives), guarded by non-zero timeout", floor=16)
    server_kinds = {"connect", "publish", "puback", "pubrec", "pubrel", "pubcomp", "subscribe", "unsubscribe", "pingreq", "auth"}
    for (ver, kind), f in sorted(recvh.items()):
        if kind not in server_kinds:
            continue
        bad = None
        cnt = 0
        for p in allp[f["name"]]:
            seen_refresh = False
            for e in p.effects:
                if e[0] == "enter" and e[1].endswith("::refresh_pingreq_recv"):
                    seen_refresh = True
                if e[0] == "push" and conn.is_event(e[2], "NotifyPacketReceived"):
                    cnt += 1
                    if not seen_refresh:
                        bad = p
            # a packet accepted without delivery (QoS 2 duplicate answered with PUBREC) is accepted traffic too
            if not conn.errors(p) and not seen_refresh and conn.calls(p, "::parse") and \
                    all(conn.possible(F, p, e[4][1], "std::result::Result") == {"Ok"} for _, e in conn.calls(p, "::parse") if e[4][0] == "sym"):
                bad = p
        if cnt == 0:
            r5.violation(f["name"], "%s has no delivering path" % f["name"])
        elif bad:
            r5.violation(f["name"], "%s delivers a packet on a path that did not call refresh_pingreq_recv first" % f["name"], conn.path_summary(bad),
                         site="%s:%s" % (f["file"], f["line"]))
        else:
            r5.ok(f["name"], {"deliveries": cnt})
    tt = conn.field_term("pingreq_recv_timeout_ms", F)
    for p in allp["refresh_pingreq_recv"]:
        w = conn.word(p) or []
        c = p.cons.get(tt)
        nonzero = c is not None and c[0] == "ne" and 0 in c[1]
        zero = c == ("eq", 0)
        key = "refresh/%s" % ("nonzero" if nonzero else "zero" if zero else "undecided")
        if (nonzero and w == ["RequestTimerReset(PingreqRecv)"]) or (zero and w == []):
            r5.ok(key)
        else:
            r5.violation(key, "refresh_pingreq_recv: timeout %s -> %s" % (c, w), conn.path_summary(p))

    # ------------------------------------------------------------------ R6
    r6 = run.rule("C15-R6", "PINGREQ send arms PingrespRecv iff timeout != 0; PINGRESP receive cancels under the flag", floor=4)
    rt = conn.field_term("pingresp_recv_timeout_ms", F)
    for (ver, kind), f in sorted(sendh.items()):
        if kind != "pingreq":
            continue
        bad = None
        cnt = 0
        for p in allp[f["name"]]:
            w = conn.word(p) or []
            if "RequestSendPacket" not in w:
                continue
            cnt += 1
            c = p.cons.get(rt)
            nonzero = c is not None and c[0] == "ne" and 0 in c[1]
            zero = c == ("eq", 0)
            armed = "RequestTimerReset(PingrespRecv)" in w
            if not ((nonzero and armed) or (zero and not armed)):
                bad = p
        if bad or cnt == 0:
            r6.violation(f["name"], "%s: PingrespRecv arming does not follow pingresp_recv_timeout_ms != 0" % f["name"], conn.path_summary(bad) if bad else None)
        else:
            r6.ok(f["name"], {"emitting_paths": cnt})
    for (ver, kind), f in sorted(recvh.items()):
        if kind != "pingresp":
            continue
        bad = None
        cnt = 0
        for p in allp[f["name"]]:
            w = conn.word(p) or []
            if "NotifyPacketReceived" not in w:
                continue
            cnt += 1
            fl = conn.bool_field_at_entry(F, p, flags["PingrespRecv"])
            cancelled = "RequestTimerCancel(PingrespRecv)" in w
            if not ((fl == {True} and cancelled) or (fl == {False} and not cancelled)):
                bad = p
        if bad or cnt == 0:
            r6.violation(f["name"], "%s: PingrespRecv cancel does not follow the armed flag" % f["name"], conn.path_summary(bad) if bad else None)
        else:
            r6.ok(f["name"], {"delivering_paths": cnt})

    # ------------------------------------------------------------------ R7
    r7 = run.rule("C15-R7", "timer expiry effects: PINGREQ sent / v3.1.1 close / v5.0 DISCONNECT(KeepAliveTimeout)", floor=9, kind="E")
    cells = {}
    for p in allp["notify_timer_fired"]:
        for k in conn.possible(F, p, ("arg", "kind"), conn.TIMERKIND):
            for v in conn.version_at_entry(F, p):
                for s in conn.status_at_entry(F, p):
                    cells.setdefault((k, v, s), []).append(p)
    for (k, v, s), ps in sorted(cells.items()):
        if v == "Undetermined":
            continue
        key = "%s/%s/%s" % (k, v, s)
        ents = [[e for e in p.effects if e[0] == "enter" and "process_send_" in e[1]] for p in ps]
        names = {tuple(x[1].split("::")[-1] for x in en) for en in ents}
        words = {tuple(conn.word(p) or []) for p in ps}
        vv = {"V3_1_1": "v3_1_1", "V5_0": "v5_0"}[v]
        if k == "PingreqSend":
            want = {("process_send_%s_pingreq" % vv,)} if s == "Connected" else {()}
            if names == want:
                r7.ok(key, sorted(names))
            else:
                r7.violation(key, "PingreqSend expiry (%s,%s) enters %s, expected %s" % (v, s, sorted(names), sorted(want)))
        else:
            if v == "V3_1_1":
                if words == {("RequestClose",)}:
                    r7.ok(key)
                else:
                    r7.violation(key, "%s expiry on v3.1.1 must yield exactly RequestClose, got %s" % (k, sorted(words)))
            else:
                if s == "Connected":
                    okc = names == {("process_send_v5_0_disconnect",)}
                    rcs = set()
                    kat = conn.wire_value(F, "mqtt::result_code::DisconnectReasonCode", "KeepAliveTimeout")
                    for en in ents:
                        for x in en:
                            rb = conn.agg_field(F, x[2][1], "reason_code_buf")
                            rcs.add(rb == ("agg", "std::option::Option", "Some", (("arr", (("c", kat, "u8"),)),)))
                    if okc and rcs == {True}:
                        r7.ok(key, "DISCONNECT(KeepAliveTimeout)")
                    else:
                        r7.violation(key, "%s expiry on v5.0/Connected must send DISCONNECT with KeepAliveTimeout; enters %s, reason-ok=%s" % (k, sorted(names), sorted(rcs)))
                else:
                    if names == {()}:
                        r7.ok(key)
                    else:
                        r7.violation(key, "%s expiry on v5.0/%s enters %s" % (k, s, sorted(names)))
    # ------------------------------------------------------------------ R8: Server Keep Alive is recorded whenever announced
    r8 = run.rule("C15-R8", "an accepted CONNACK that carries Server Keep Alive records it, whatever else is configured", floor=1)
    PROP = "mqtt::packet::property::Property"
    f8 = recvh.get(("v5_0", "connack"))
    if f8 is None or PROP not in F.adts:
        r8.violation("anchor", "v5.0 CONNACK receive handler / Property enum not found")
    else:
        ska = [v for v in F.adt(PROP)["variants"] if v["name"] == "ServerKeepAlive"]
        d8 = ska[0].get("discr", ska[0]["idx"]) if ska else None
        n8 = 0
        bad8 = None
        for p in conn.paths(F, f8["path"])["paths"]:
            if p.kind != "return" or conn.errors(p) or "NotifyPacketReceived" not in (conn.word(p) or []):
                continue
            if not any(k[0] == "discr" and k[2] == PROP and c == ("eq", d8) for k, c in p.cons.items()):
                continue
            n8 += 1
            ws = [e for e in p.effects if e[0] == "write" and conn.field_of_write(e) == "pingreq_server_keep_alive_ms"]
            # the value in force when the handler returns is the announced one: the last write on the path is Some(..)
            # (recording it and then clearing it again is the same loss)
            if not ws or not (ws[-1][3][0] == "agg" and ws[-1][3][2] == "Some"):
                bad8 = p
        if n8 == 0:
            r8.violation("anchor", "no accepted CONNACK path that sees a Server Keep Alive property (anchor lost)")
        elif bad8 is not None:
            r8.violation("process_recv_v5_0_connack", "an accepted CONNACK carrying Server Keep Alive does not record it on some path (the priority override > Server Keep Alive > "
                         "CONNECT keep-alive then falls back to the CONNECT value once the override is removed)", conn.path_summary(bad8),
                         site="%s:%s" % (f8["file"], f8["line"]))
        else:
            r8.ok("process_recv_v5_0_connack", {"paths": n8})
    conn.prune_path_cache(F)
