"""C04 - decoder totality (no panic / out-of-bounds / unbounded loop on any bytes); accepted input obeys the
builders' structural rules.  Canonical re-parse equality is not decided.

R1  panic-site ledger over every decoder function (all `parse` / `decode*` functions under mqtt::packet and
    everything in the crate they reach): each panic-capable construct is discharged mechanically
    (D1 constants, D2 linear path facts incl. callee post-conditions, D3 type intervals) or is listed in the
    audited ledger (ledger/panic_sites.jsonl, keyed without line numbers); anything else is a violation.
R2  every loop in a decoder is iterator-driven or has a strictly increasing cursor bounded by the input.
R3  UTF-8 typestate: from_utf8_unchecked is called only in functions that validated the same bytes with
    from_utf8, or whose argument comes from an already constructed MqttString.
R5  every id-carrying packet's parse rejects the all-zero identifier (as its builder does); QoS 3 rejected.
R6  every decoder reports `consumed <= len(input)` on every accepting path (also the fact R1 uses).
"""
import json
import os
import re

import conn
import explore
import linear
import panics
from report import VERIF

DEC_RE = re.compile(r"::(parse|decode|decode_stream|from_u8)$")
LEDGER = os.path.join(VERIF, "ledger", "panic_sites.jsonl")


def load_ledger(section):
    out = {}
    if os.path.exists(LEDGER):
        for ln in open(LEDGER):
            ln = ln.strip()
            if ln and not ln.startswith("#"):
                d = json.loads(ln)
                if d.get("section") == section:
                    out[d["key"]] = d
    return out


def decoders(F):
    roots = [f for f in F.fns.values() if f["path"].startswith("mqtt::packet::") and DEC_RE.search(f["path"]) and f.get("kind") in ("AssocFn", "Fn")
             and "_serde" not in f["path"] and "Builder" not in f.get("impl_self", "")]
    seen = {}
    work = list(roots)
    while work:
        f = work.pop()
        if f["path"] in seen:
            continue
        seen[f["path"]] = f
        for b in f["blocks"]:
            t = b["term"]
            if t["k"] == "call" and "fn" in t["func"].get("const", {}):
                fi = t["func"]["const"]["fn"]
                cp = (fi.get("res") or {}).get("path", fi["path"])
                g = F.fns.get(cp)
                if g is not None and cp not in seen and "_serde" not in cp and "::fmt" not in cp:
                    work.append(g)
            for s in b["stmts"]:
                if s["k"] == "assign" and s["rv"]["k"] == "agg" and "closure" in s["rv"]:
                    g = F.fns.get(s["rv"]["closure"])
                    if g is not None and g["path"] not in seen:
                        work.append(g)
    return roots, seen


def zero_closure_kind(F, call_effect):
    """For `iter.all(closure)` / `iter.any(closure)`: 'Eq' / 'Ne' when the closure's only comparison is with the constant 0."""
    for a in call_effect[2]:
        if isinstance(a, tuple) and a and a[0] == "closure":
            g = F.fns.get(a[1])
            if g is None:
                return None
            ops = set()
            for b in g["blocks"]:
                for s in b["stmts"]:
                    if s["k"] == "assign" and s["rv"]["k"] == "bin" and s["rv"]["op"] in ("Eq", "Ne", "Lt", "Le", "Gt", "Ge"):
                        zero = any("const" in o and o["const"].get("bits") == 0 for o in (s["rv"]["a"], s["rv"]["b"]))
                        ops.add(s["rv"]["op"] if zero else "other")
            if ops == {"Eq"}:
                return "Eq"
            if ops == {"Ne"} or ops == {"Gt"}:
                return "Ne"
            return None
    return None


def path_rejects_zero_id(F, p):
    """A zero test on identifier bytes decided 'non-zero' on this path, in any spelling: all(|b| b == 0) false,
    any(|b| b != 0) true, is_zero()/is_all_zero() false."""
    for e in p.effects:
        if e[0] == "call" and re.search(r"::is_(all_)?zero\w*$", e[1]):
            if conn.truth(p, e) is False:
                return True
        if e[0] == "call" and (e[1].endswith("Iterator>::all") or e[1].endswith("Iterator>::any") or e[1].endswith("Iterator::all") or e[1].endswith("Iterator::any")):
            kind = zero_closure_kind(F, e)
            is_all = e[1].endswith("all")
            t_ = conn.truth(p, e)
            if (is_all and kind == "Eq" and t_ is False) or (not is_all and kind == "Ne" and t_ is True):
                return True
    return False


def reach_calls(F, f):
    """Call targets of f and of the private helpers / closures it delegates to."""
    out, seen, work = set(), set(), [f]
    while work:
        g = work.pop()
        if g["path"] in seen:
            continue
        seen.add(g["path"])
        for c in conn.fn_refs(g):
            out.add(c)
            h = F.fns.get(c)
            if h is not None and (h.get("kind") == "Closure" or explore.small_private_helper(h)) and len(seen) < 40:
                work.append(h)
    return out


def callees_of(f):
    out = set()
    for b in f["blocks"]:
        t = b["term"]
        if t["k"] == "call" and "fn" in t["func"].get("const", {}):
            fi = t["func"]["const"]["fn"]
            out.add((fi.get("res") or {}).get("path", fi["path"]))
    return out


def is_decoder_ret(f):
    return bool(re.match(r"^std::result::Result<\(.*, usize\), mqtt::result_code::MqttError>$", f["locals"][0]))


def consumed_facts(F, p, lin, expand):
    """Callee post-conditions as facts: for a call d = decoder(slice) the consumed count is <= len(slice)."""
    out = []
    for e in p.effects:
        if e[0] == "call" and e[1] in F.fns and is_decoder_ret(F.fns[e[1]]) and e[4][0] == "sym":
            t = expand(e[4][1])
            consumed = linear.atom(("field", ("field", t, 0), 1))
            # the input slice is the last slice-typed argument
            g = F.fns[e[1]]
            idx = [i for i in range(g["argc"]) if g["locals"][i + 1].startswith("&[u8]") or g["locals"][i + 1].startswith("&'") and "[u8]" in g["locals"][i + 1]]
            if not idx:
                continue
            a = e[3][idx[-1]]
            out.append(linear.lin_add(consumed, lin.len_of(a), -1))
    # the variable-byte-integer stream decoder consumes at most what it was given (audited post-condition: it iterates
    # buf.iter().take(4).enumerate() and reports i + 1)
    for e in p.effects:
        if e[0] == "call" and e[1].endswith("VariableByteInteger::decode_stream") and e[4][0] == "sym":
            t = expand(e[4][1])
            out.append(linear.lin_add(linear.atom(("field", t, 1)), lin.len_of(e[3][0]), -1))
    # Buffer of a packet id type: as_mut()/as_ref() of a Buffer has length size_of::<Buffer>() - every IsPacketId impl
    # declares Buffer = [u8; N] (checked by buffer_types_ok)
    if buffer_types_ok(F):
        for e in p.effects:
            if e[0] == "call" and e[1] in ("std::convert::AsMut::as_mut", "std::convert::AsRef::as_ref") and e[4][0] == "sym":
                targs = [a for a in e[3] if isinstance(a, tuple) and a and a[0] == "targs"]
                if targs and targs[0][1] and targs[0][1][0].endswith("IsPacketId>::Buffer"):
                    ln = lin.len_of(("sym", expand(e[4][1])))
                    sz = linear.atom(("call", "std::mem::size_of", (("targs", (targs[0][1][0],)),)))
                    out.append(linear.lin_add(ln, sz, -1))
                    out.append(linear.lin_add(sz, ln, -1))
    return out


_bt = {}


def buffer_types_ok(F):
    if F.hash not in _bt:
        ims = F.impls_of("mqtt::packet::packet_id::IsPacketId")
        _bt[F.hash] = bool(ims) and all(re.match(r"^\[u8; \d+\]$", im.get("types", {}).get("Buffer", "")) for im in ims)
    return _bt[F.hash]


def check(run, F, tier):
    run.explanation = ("Panic-site ledger over all decoder functions: every MIR assert, unwrap, slice index and copy_from_slice met on some "
                       "abstract path is discharged by constants, linear path facts (with callee post-conditions consumed <= len(input)) or "
                       "type intervals, or is an audited ledger entry. Loops classified; UTF-8 typestate; zero-id rejection; consumed <= len.")
    run.assumptions += ["A-MEM: in-memory lengths and sizes are below 2^56, so sums of a few of them do not overflow usize",
                        "A-RL: inputs handed to parse() are at most 268 435 455 bytes (guaranteed by the framer on the recv() path)"]
    roots, fns = decoders(F)
    ledger = load_ledger("C04")
    r1 = run.rule("C04-R1", "no undischarged panic site in any decoder function", floor=300)
    r6 = run.rule("C04-R6", "decoders never report more consumed than the input holds", floor=45)
    r5 = run.rule("C04-R5", "id-carrying parsers reject the zero identifier; PUBLISH parsers reject QoS 3", floor=14)
    mech = aud = 0
    used = set()

    def inl(ex, callee, info):
        return callee.get("kind") == "Closure" or explore.small_private_helper(callee)
    for path, f in sorted(fns.items()):
        if f.get("kind") == "Closure":
            continue   # analysed inlined in their parent
        if explore.small_private_helper(f):
            continue   # analysed in context: inlined at each of its call sites
        if path == "mqtt::common::arc_payload::ArcPayload::new":
            continue   # its debug_assert is a precondition, discharged at each call site (panics.collect 'precond')
        try:
            obs, st = panics.collect(F, path, inline_pred=inl, facts_hook=consumed_facts)
        except explore.ExploreError as e:
            r1.violation(panics.short_fn(path) + "|explore", "cannot explore decoder %s: %s" % (path, e))
            continue
        for o in obs:
            if o.status == "discharged":
                mech += 1
                r1.ok(o.key, o.why)
                continue
            le = panics.ledger_match(ledger, o)
            if le is not None and o.status == "open":
                aud += 1
                used.add(o.key)
                r1.ok(o.key, "audited: " + le["reason"])
                continue
            r1.violation(o.key, "%s: %s %s at %s:%s - %s" % (panics.short_fn(o.fn), o.kind, o.desc, o.site[0].split("::")[-1], o.site[1], o.why),
                         conn.path_summary(o.path), site="%s:%s" % (F.fns[o.site[0]]["file"] if o.site[0] in F.fns else "?", o.site[1]))
        # R6 / R5 on decoder entry points
        if is_decoder_ret(f) and f in roots:
            ex = explore.Explorer(F, inline_pred=inl)
            ps = ex.run(path)
            expand = lambda t: conn.expand_all(ex.interned_rev, t)
            lin = linear.Lin(expand)
            arg_idx = [i for i in range(f["argc"]) if "[u8]" in f["locals"][i + 1]]
            bad = None
            nok = 0
            for p in ps:
                if p.kind != "return" or not (p.ret and p.ret[0] == "agg" and p.ret[2] == "Ok"):
                    continue
                nok += 1
                tup = p.ret[3][0]
                if not (tup[0] == "tup" and len(tup[1]) == 2):
                    bad = (p, "return value shape")
                    continue
                cons = lin.of_value(tup[1][1])
                if arg_idx:
                    names = f.get("names", {})
                    an = names.get(str(arg_idx[-1] + 1), "arg%d" % (arg_idx[-1] + 1))
                    byref = f["locals"][arg_idx[-1] + 1].startswith("&")
                    ln2 = lin.len_of(("ref", ("arg", an), ())) if byref else lin.len_of(("sym", ("arg", an)))
                    facts = lin.facts_of_path(p) + consumed_facts(F, p, lin, expand)
                    q = linear.lin_add(cons, ln2, -1)
                    if not linear.entails(facts + linear.aux_facts(lin, facts + [q]), q) and not linear.infeasible(facts):
                        # (a path whose own facts are inconsistent - the `None` arm of a checked `get(cursor..)` after the
                        # cursor was already proved in range - is not an execution)
                        bad = (p, "consumed <= len(%s) not proved" % an)
            key = panics.short_fn(path)
            if nok and not arg_idx:
                r6.ok(key, "no byte-slice input (consumes from a shared payload)")
            elif bad:
                le = ledger.get(key + "|consumed")
                if le:
                    used.add(key + "|consumed")
                    r6.ok(key, "audited: " + le["reason"])
                else:
                    r6.violation(key, "%s: %s" % (key, bad[1]), conn.path_summary(bad[0]), site="%s:%s" % (f["file"], f["line"]))
            elif nok:
                r6.ok(key, {"accepting_paths": nok})
    run.cov_extra["mechanical"] = mech
    run.cov_extra["audited"] = aud
    run.cov_extra["functions"] = len(fns)
    stale = sorted(set(ledger) - used)
    if stale:
        r1.note("ledger entries no longer needed (site discharged or gone): %s" % stale[:20])

    # ------------------------------------------------------------------ R5
    for f in sorted(roots, key=lambda f: f["path"]):
        m = re.match(r"^mqtt::packet::(v3_1_1|v5_0)::(\w+)::(Generic\w+)::<PacketIdType>::parse$", f["path"])
        if not m:
            continue
        ver, kind = m.group(1), m.group(2)
        ex = explore.Explorer(F, inline_pred=lambda ex, callee, info: callee.get("kind") == "Closure" or explore.small_private_helper(callee))
        ps = ex.run(f["path"])
        zero_rejected = True
        nok = 0
        for p in ps:
            if p.kind != "return" or not (p.ret and p.ret[0] == "agg" and p.ret[2] == "Ok"):
                continue
            # QoS 0 publish carries no id: recognised by packet_id_buf == None in the returned struct
            pk = p.ret[3][0][1][0] if p.ret[3][0][0] == "tup" else None
            has_id = True
            if kind == "publish" and pk is not None:
                idb = conn.agg_field(F, pk, "packet_id_buf")
                has_id = not (idb is not None and idb[0] == "agg" and idb[2] == "None")
            if not has_id:
                continue
            nok += 1
            okz = path_rejects_zero_id(F, p)
            if not okz:
                zero_rejected = False
        key = "%s::%s" % (ver, kind)
        if nok == 0:
            r5.violation(key, "no accepting path with an identifier in %s" % f["path"])
        elif zero_rejected:
            r5.ok(key, {"accepting_paths_with_id": nok})
        else:
            r5.violation(key, "%s::%s::parse accepts packet identifier 0 (no zero test on the id bytes on an accepting path); every builder rejects it" % (ver, kind),
                         site="%s:%s" % (f["file"], f["line"]))
        if kind == "publish":
            # QoS 3: an Err path constrained by the qos bits == 3
            q3 = False
            for p in ps:
                if p.kind == "return" and p.ret and p.ret[0] == "agg" and p.ret[2] == "Err":
                    for k, c in p.cons.items():
                        if c in (("eq", 3),) or (k[0] == "cmp" and k[1] == "Eq" and ("c", 3, "u8") in (k[2], k[3]) and c == ("eq", 1)):
                            q3 = True
            okpaths_q3 = False
            for p in ps:
                if p.kind == "return" and p.ret and p.ret[0] == "agg" and p.ret[2] == "Ok":
                    for k, c in p.cons.items():
                        if c == ("eq", 3) and "flags" in repr(conn.expand_all(ex.interned_rev, k)):
                            okpaths_q3 = True
            if q3 and not okpaths_q3:
                r5.ok(key + "/qos3")
            else:
                r5.violation(key + "/qos3", "%s::publish::parse does not reject QoS 3" % ver)

    # ------------------------------------------------------------------ R7
    r7 = run.rule("C04-R7", "every property list a v5.0 parser accepts was checked by the validator the builder of that kind uses, and is the list stored", floor=14)
    PP = "PropertiesParse>::parse"

    def root_of(t):
        """strip projections / derefs down to the producing term"""
        while True:
            if t[0] == "sym":
                t = t[1]
            elif t[0] == "field":
                t = t[1]
            elif t[0] == "init" and t[1] and t[1][0] == "D":
                t = t[1][1]
            elif t[0] == "call" and len(t[2]) >= 1 and re.search(r"(::deref|::as_ref|::as_slice|::borrow)$", t[1]):
                t = t[2][0]
            elif t[0] == "ref" and t[1] and t[1][0] == "D":
                t = t[1][1]
            else:
                return t
    def roots_in(v):
        out, work = set(), [v]
        while work:
            x = work.pop()
            if x[0] == "agg":
                work.extend(x[3])          # Some(props)
            elif x[0] in ("sym", "ref"):
                out.add(repr(root_of(x)))
        return out
    for f in sorted(roots, key=lambda f: f["path"]):
        m = re.match(r"^mqtt::packet::v5_0::(\w+)::(Generic\w+::<PacketIdType>|\w+)::parse$", f["path"])
        if not m:
            continue
        kind = m.group(1)
        if not f.get("pub"):
            continue          # a private `Section::parse` helper of a packet parser is judged inside the parser that uses it
        if not any(c.endswith(PP) for c in reach_calls(F, f)):
            continue
        # closures and private helpers are followed (also through function pointers); validators stay visible as calls
        ex = explore.Explorer(F, inline_pred=conn.not_validator_inline(F))
        ps = ex.run(f["path"])
        exp = lambda t: conn.expand_all(ex.interned_rev, t)
        seen = {}
        for p in ps:
            if p.kind != "return" or not (p.ret and p.ret[0] == "agg" and p.ret[2] == "Ok"):
                continue
            calls = [e for e in p.effects if e[0] == "call"]
            stored_roots = set()
            pk = p.ret[3][0][1][0] if p.ret[3][0][0] == "tup" else p.ret[3][0]
            if pk[0] == "agg":
                for fv in pk[3]:
                    stored_roots |= roots_in(exp(fv))
            n_pp = 0
            for i, e in enumerate(calls):
                if not e[1].endswith(PP):
                    continue
                n_pp += 1
                r = repr(exp(e[4][1]))
                vs = sorted({c[1] for c in calls[i + 1:] if c[1] in F.fns and conn.is_prop_validator(F.fns[c[1]]) and any(r in roots_in(exp(a)) for a in c[3])})
                k = (n_pp, tuple(vs), r in stored_roots)
                seen.setdefault(k, p)
        if not seen:
            r7.violation(kind, "%s: no accepting path parses a property list (anchor lost)" % f["path"])
            continue
        # builder-side validators of the same kind
        bstarts = [bp for bp in F.fns if re.match(r"^mqtt::packet::v5_0::%s::\w*Builder(::<\w+>)?::(validate|build)$" % kind, bp)]
        bval = set(conn.validators_reached(F, bstarts, through=lambda g: g.get("kind") == "Closure" or explore.small_private_helper(g)
                                           or ("Builder" in g.get("impl_self", "") and not g.get("pub"))))
        for (n_pp, vs, stored), p in sorted(seen.items()):
            key = "%s#%d" % (kind, n_pp)
            if not vs:
                r7.violation(key, "v5_0::%s::parse accepts property list #%d without passing it to a validate_* function (the builder of this kind validates with %s)"
                             % (kind, n_pp, sorted(x.split("::")[-1] for x in bval)), conn.path_summary(p), site="%s:%s" % (f["file"], f["line"]))
            elif not stored:
                r7.violation(key, "v5_0::%s::parse validates property list #%d but stores a different value in the packet" % (kind, n_pp),
                             conn.path_summary(p), site="%s:%s" % (f["file"], f["line"]))
            elif not set(vs) <= bval:
                r7.violation(key, "v5_0::%s::parse validates with %s, which the builder of this kind does not use (%s)"
                             % (kind, [x.split("::")[-1] for x in vs], sorted(x.split("::")[-1] for x in bval)), site="%s:%s" % (f["file"], f["line"]))
            else:
                r7.ok(key, {"validators": [x.split("::")[-1] for x in vs]})
        pvals = {v for (_, vs, _) in seen for v in vs}
        missing = {b for b in bval if F.fns[b]["argc"] == 1} - pvals      # (a validator with further inputs is matched by R9 / C18)
        if missing:
            r7.violation(kind + "|builder-only", "the v5_0::%s builder validates with %s but parse never applies it to a parsed list"
                         % (kind, sorted(x.split("::")[-1] for x in missing)), site="%s:%s" % (f["file"], f["line"]))

    # ------------------------------------------------------------------ R8 / R9: canonical lengths
    r8 = run.rule("C04-R8", "leaf decoders report consumed == encoded size of the value they return (only canonical encodings are accepted)", floor=3)
    LEAVES = [("mqtt::packet::variable_byte_integer::VariableByteInteger::decode_stream", "mqtt::packet::variable_byte_integer::DecodeResult"),
              ("mqtt::packet::mqtt_string::MqttString::decode", "std::result::Result"),
              ("mqtt::packet::mqtt_binary::MqttBinary::decode", "std::result::Result")]
    for lf, radt in LEAVES:
        key = panics.short_fn(lf)
        if lf not in F.fns:
            r8.violation(key, "leaf decoder %s not found (anchor lost)" % lf)
            continue
        ex = explore.Explorer(F, inline_pred=inl)
        ps = ex.run(lf)
        exp = lambda t, ex=ex: conn.expand_all(ex.interned_rev, t)
        lin = linear.Lin(exp)
        nok = 0
        bad = None
        undec = None
        for p in ps:
            if p.kind != "return" or not (p.ret and p.ret[0] == "agg" and p.ret[1] == radt and p.ret[2] == "Ok"):
                continue
            ops = p.ret[3]
            if len(ops) == 1 and ops[0][0] == "tup":
                ops = ops[0][1]
            if len(ops) != 2:
                undec = "Ok payload is not (value, consumed)"
                continue
            val, cons = exp(ops[0]), ops[1]
            nok += 1
            size = None
            if val[0] == "agg" and len(val[3]) == 1 and val[3][0][0] == "vec":
                # byte container built on the path: size() must be the length of that vector (checked on size()'s own body)
                sfn = F.fns.get(val[1] + "::size")
                okb = False
                if sfn is not None:
                    exs = explore.Explorer(F, inline_pred=inl)
                    rets = [q.ret for q in exs.run(sfn["path"]) if q.kind == "return"]
                    okb = bool(rets) and all(r[0] == "sym" and r[1][0] == "call" and r[1][1].endswith("::len") and
                                             repr(r[1][2][0]) == repr(("sym", ("field", ("init", ("self",), ()), 0))) for r in rets)
                if not okb:
                    undec = "size() of %s is not the length of its byte vector in this configuration" % val[1].split("::")[-1]
                    continue
                size = ({}, 0)
                if lf.endswith("::decode_stream") and any(it[0] == "slice" and "('arg'," in repr(exp(it[1])) for it in val[3][0][1]):
                    # a variable-width leaf that returns the accepted bytes themselves: consumed == size() then holds by
                    # construction and says nothing about minimality - the rule has no verdict on this shape of the decoder
                    undec = "the returned value stores the accepted input bytes: consumed == size() is trivial here, minimality is not decided by this rule"
                    continue
                for it in val[3][0][1]:
                    if it[0] != "slice":
                        size = None
                        break
                    src = it[1]
                    size = linear.lin_add(size, lin.len_of(("sym", src[1][1]) if (src[0] == "loc" and src[1][0] == "D" and not src[2]) else
                                                           (("ref", src[1], src[2]) if src[0] == "loc" else src)))
            elif val[0] == "sym":
                # opaque value: its size() as observed on this path (a `v.size()` call whose receiver is this value)
                for e in p.effects:
                    if e[0] == "call" and e[1].endswith("::size") and e[3] and repr(exp(e[3][0])) == repr(val) and e[4][0] == "sym":
                        size = lin.of_value(e[4])
                        break
                if size is None:
                    bad = (p, "accepts without relating the number of bytes consumed to the size of the value it returns")
                    continue
            if size is None:
                undec = "value shape not understood"
                continue
            q = linear.lin_add(lin.of_value(cons), size, -1)
            facts = lin.facts_of_path(p)
            if not (linear.entails(facts, q) and linear.entails(facts, linear.lin_scale(q, -1))):
                bad = (p, "consumed (%s) is not proved equal to the encoded size of the returned value" % conn.short(cons)[:80])
        if bad:
            r8.violation(key, "%s %s: an encoding that is longer than the value's own encoding is accepted (e.g. a non-minimal variable byte "
                         "integer), so a packet parsed from it reports a size different from its serialisation" % (key, bad[1]),
                         conn.path_summary(bad[0]), site="%s:%s" % (F.fns[lf]["file"], F.fns[lf]["line"]))
        elif nok == 0:
            r8.violation(key, "%s has no accepting path (anchor lost)" % key)
        elif undec:
            r8.note("%s: not decided in this configuration: %s" % (key, undec))
            r8.ok(key + "|undecided", undec)
        else:
            r8.ok(key, {"accepting_paths": nok})

    r9 = run.rule("C04-R9", "an accepted packet's Remaining Length (and property lengths) equal what its serialiser emits, given canonical leaves", floor=24)
    run.assumptions.append("A-LEAF: Properties::parse / Property::parse / SubEntry parse report consumed == size of what they return "
                           "(their loops are not decided; the VBI / string / binary leaves they rest on are C04-R8)")
    import lenacct
    acct = lenacct.Acct(F, consumed_facts)
    for ver, kind, pfn in lenacct.parsers(F):
        key = "%s::%s" % (ver, kind)
        try:
            rec = acct.run(ver, kind, pfn, parser=True)
        except Exception as e:  # noqa
            r9.violation(key + "|explore", "cannot analyse %s: %r" % (pfn, e))
            continue
        fobj = F.fns[pfn]
        if rec["diff"]:
            d = rec["diff"][0]
            r9.violation(key, "%s::%s::parse: the Remaining Length it stores counts [%s] which the serialiser does not emit, and misses [%s]: size() of an accepted packet "
                         "differs from the length of its serialisation" % (ver, kind, d.get("only_in_build", d["build"]), d.get("only_serialised", d["serialised"])),
                         d, site="%s:%s" % (fobj["file"], fobj["line"]))
        elif rec["prop_diff"]:
            d = rec["prop_diff"][0]
            r9.violation(key, "%s::%s::parse: a property-length field holds %s but the list serialised after it has %s" % (ver, kind, d["length"], d["list"]),
                         d, site="%s:%s" % (fobj["file"], fobj["line"]))
        elif rec["ok"]:
            r9.ok(key, {"paths": rec["ok"], "leaves": sorted(rec.get("leaf_used", []))})
        else:
            r9.note("%s: not decided (%s)" % (key, sorted(set(rec["undecided"]))[:2]))

    # ------------------------------------------------------------------ R10: length guards are not over-strict
    r10 = run.rule("C04-R10", "a length guard rejects only inputs the accepting path could not have read (no valid shortest input is refused)", floor=20)
    INDEX_RE = re.compile(r"::index(_mut)?$")
    for f in sorted(roots, key=lambda f: f["path"]):
        if not is_decoder_ret(f) or explore.small_private_helper(f):
            continue
        arg_idx = [i for i in range(f["argc"]) if "[u8]" in f["locals"][i + 1]]
        if not arg_idx:
            continue
        names = f.get("names", {})
        an = names.get(str(arg_idx[-1] + 1), "arg%d" % (arg_idx[-1] + 1))
        byref = f["locals"][arg_idx[-1] + 1].startswith("&")
        ex = explore.Explorer(F, inline_pred=inl)
        try:
            ps = ex.run(f["path"])
        except explore.ExploreError:
            continue
        exp = lambda t, ex=ex: conn.expand_all(ex.interned_rev, t)
        lin = linear.Lin(exp)
        LEN = lin.len_of(("ref", ("arg", an), ())) if byref else lin.len_of(("sym", ("arg", an)))
        if len(LEN[0]) != 1:
            continue
        latom = list(LEN[0])[0]
        okp = [p for p in ps if p.kind == "return" and p.ret and p.ret[0] == "agg" and p.ret[2] == "Ok"]
        cutp = [p for p in ps if p.kind not in ("return", "panic", "diverge")]
        for pe in ps:
            if pe.kind != "return" or not (pe.ret and pe.ret[0] == "agg" and pe.ret[2] == "Err") or not pe.cons:
                continue
            gk = list(pe.cons)[-1]
            gc = pe.cons[gk]
            gf = [g for g in lin.facts_of_cons({gk: gc}) if g[0].get(latom, 0) == 1 and all(a == latom or c < 0 or True for a, c in g[0].items())]
            if len(gf) != 1:
                continue
            g = gf[0]                                  # LEN - E' <= 0  : the guard refuses every input with len <= E'
            E = linear.lin_scale(linear.lin_add(g, LEN, -1), -1)      # E' = LEN - g
            key = "%s|%s" % (panics.short_fn(f["path"]), conn.short(("sym", gk))[:90])
            # accepting continuations: the same atom decided the other way
            conts = [p for p in okp if gk in p.cons and p.cons[gk] != gc]
            if not conts or any(gk in p.cons and p.cons[gk] != gc for p in cutp):
                continue
            decided = True
            need_exact = False
            for po in conts:
                base_facts = [x for x in lin.facts_of_cons({k: c for k, c in po.cons.items() if k != gk})]
                # effects known to precede the guard: everything up to the last effect whose constraint snapshot lacks it
                last_before = -1
                for i_, e in enumerate(po.effects):
                    snap_ = e[6] if (e[0] == "call" and len(e) > 6) else (e[5] if (e[0] in ("assert", "unwrap") and len(e) > 5) else None)
                    if isinstance(snap_, dict) and gk not in snap_:
                        last_before = i_
                for i_, e in enumerate(po.effects):
                    if e[0] != "call" or i_ <= last_before:
                        continue
                    ae = [exp(a) for a in e[3]]

                    def slice_of_input(a, depth=0):
                        """the input itself or a sub-slice / view of it (not a scalar computed from it)"""
                        if depth > 8 or not isinstance(a, tuple) or not a:
                            return False
                        if a == latom[1] or (a[0] == "ref" and a[1] == ("arg", an)):
                            return True
                        if a[0] == "sym":
                            t_ = a[1]
                            if t_[0] == "init" and t_[1] and t_[1][0] == "D":
                                return slice_of_input(("sym", t_[1][1]), depth + 1)
                            if t_[0] == "call" and t_[2] and t_[1].split("::")[-1] in ("index", "index_mut", "deref", "as_ref", "as_slice", "clone", "borrow"):
                                return slice_of_input(t_[2][0], depth + 1)
                            if t_[0] == "arg" and t_[1] == an:
                                return True
                        return False
                    touches = any(slice_of_input(a) for a in ae)
                    if not touches:
                        continue
                    if INDEX_RE.search(e[1]) and len(ae) == 2:
                        rng = ae[1]
                        req = None
                        if rng[0] == "agg" and rng[2] in ("Range", "RangeTo"):
                            req = lin.of_value(rng[3][-1])
                        elif rng[0] == "agg" and rng[2] == "RangeFrom":
                            req = lin.of_value(rng[3][0])
                        elif rng[0] in ("c", "sym"):
                            req = linear.lin_add(lin.of_value(rng), linear.const(1))
                        if req is None:
                            decided = False
                            break
                        # would this access still be in bounds for the refused input of length E' ?
                        if linear.entails(base_facts, linear.lin_add(req, E, -1)):
                            if linear.entails(base_facts, linear.lin_add(E, req, -1)):
                                need_exact = True
                        else:
                            decided = False
                            break
                    elif e[1].split("::")[-1] in ("len", "is_empty", "as_ptr", "clone", "deref", "as_ref", "iter", "all", "any", "copy_from_slice", "try_into",
                                                    "from_buffer", "to_vec", "new", "from_be_bytes", "into", "from"):
                        continue
                    else:
                        decided = False          # some other consumer of the input (a nested decoder): its needs are not known here
                        break
                if not decided:
                    break
            if decided and need_exact:
                r10.violation(key, "%s refuses input whose length equals %s although every read on the accepting path stays within that length: "
                              "a shortest valid encoding is rejected" % (panics.short_fn(f["path"]), conn.short(("sym", gk))[:120]),
                              conn.path_summary(pe), site="%s:%s" % (f["file"], f["line"]))
            else:
                r10.ok(key, "tight" if decided else "followed by a consumer whose needs are not decided here")

    # ------------------------------------------------------------------ R2
    r2 = run.rule("C04-R2", "every loop in a decoder terminates: iterator-driven, or a cursor that strictly increases towards the input length", floor=10)
    for path, f in sorted(fns.items()):
        loops = natural_loops(f)
        for i, (head, body) in enumerate(loops):
            kind = classify_loop(F, f, head, body)
            key = "%s|loop#%d" % (panics.short_fn(path), i)
            if kind[0] in ("iterator", "cursor"):
                r2.ok(key, kind[1])
            else:
                le = ledger.get(key)
                if le:
                    r2.ok(key, "audited: " + le["reason"])
                else:
                    r2.violation(key, "loop in %s (head bb%d) is neither iterator-driven nor has a strictly increasing bounded cursor: %s" % (path, head, kind[1]),
                                 site="%s:%s" % (f["file"], f["line"]))

    check_representation(run, F)

    # ------------------------------------------------------------------ R3
    r3 = run.rule("C04-R3", "from_utf8_unchecked only on bytes validated by from_utf8 / coming from a constructed MqttString", floor=1)
    sites = []
    for f in F.fns.values():
        calls = [b["term"]["func"]["const"]["fn"]["path"] for b in f["blocks"] if b["term"]["k"] == "call" and "fn" in b["term"]["func"].get("const", {})]
        if "std::str::from_utf8_unchecked" in calls:
            sites.append((f, calls))
    MS = "mqtt::packet::mqtt_string::MqttString"
    for f, calls in sites:
        key = panics.short_fn(f["path"])
        if f.get("impl_self", "").split("<")[0] == MS and f["locals"][1].startswith("&") and MS in f["locals"][1]:
            # accessor on an existing MqttString: the typestate obligation moves to the constructors
            r3.ok(key, "accessor of a constructed MqttString")
        elif "std::str::from_utf8" in calls:
            r3.ok(key, "same function validates with from_utf8")
        else:
            r3.violation(key, "%s calls from_utf8_unchecked without validating" % f["path"])
    # constructors: every function that builds an MqttString variant takes &str/String or checks from_utf8
    ctor_bad = []
    nctor = 0
    for f in F.fns.values():
        builds = False
        for b in f["blocks"]:
            for s in b["stmts"]:
                if s["k"] == "assign" and s["rv"]["k"] == "agg" and s["rv"].get("adt") == MS:
                    builds = True
        if not builds or "_serde" in f["path"]:
            continue
        nctor += 1
        calls = [b["term"]["func"]["const"]["fn"]["path"] for b in f["blocks"] if b["term"]["k"] == "call" and "fn" in b["term"]["func"].get("const", {})]
        takes_str = any(("&str" in t or "std::string::String" in t or "AsRef<str>" in t or t.startswith("&'") and "str" in t or t.startswith("impl ") and "str" in t)
                        for t in f["locals"][1:f["argc"] + 1])
        if takes_str or "std::str::from_utf8" in calls or f.get("name") in ("clone", "default"):
            continue
        # a private helper assembling the value from (length, bytes): fine when every caller hands it validated bytes -
        # on each of the caller's paths that reach the call, a from_utf8(..) decided Ok precedes it, or the caller takes a str
        if not f.get("pub") and f.get("kind") in ("Fn", "AssocFn"):
            callers = [g for g in F.fns.values() if g is not f and f["path"] in conn.fn_refs(g)]
            okc = bool(callers)
            for g in callers:
                g_str = any(("&str" in t or "std::string::String" in t or "AsRef<str>" in t or (t.startswith("impl ") and "str" in t))
                            for t in g["locals"][1:g["argc"] + 1])
                if g_str:
                    continue
                try:
                    exg = explore.Explorer(F, inline_pred=lambda ex, callee, info: callee.get("kind") == "Closure")
                    for p in exg.run(g["path"]):
                        idx = [i for i, e in enumerate(p.effects) if e[0] == "call" and e[1] == f["path"]]
                        if not idx:
                            continue
                        val = [e for e in p.effects[:idx[0]] if e[0] == "call" and e[1] == "std::str::from_utf8" and e[4][0] == "sym"
                               and conn.possible(F, p, e[4][1], "std::result::Result") == {"Ok"}]
                        if not val:
                            okc = False
                except explore.ExploreError:
                    okc = False
            if okc:
                continue
        ctor_bad.append(f["path"])
    if ctor_bad:
        for pth in ctor_bad:
            r3.violation("ctor:" + panics.short_fn(pth), "%s constructs an MqttString from bytes without a from_utf8 check and without a str/String input" % pth)
    else:
        r3.ok("constructors", {"functions_constructing_MqttString": nctor})


def check_representation(run, F):
    """C04-R11: the representation invariants the ledger relies on for MqttString / MqttBinary (INV-LEN: at least the 2-byte
    prefix is stored; INV-SSO: a Small buffer holds prefix + that many bytes) can only be established or broken inside the
    type's own module - the structural half of the audit: who may construct, who may mutate."""
    r11 = run.rule("C04-R11", "MqttString / MqttBinary values are constructed only by their own module and never handed out mutably", floor=4)
    for adt in ("mqtt::packet::mqtt_string::MqttString", "mqtt::packet::mqtt_binary::MqttBinary"):
        if adt not in F.adts:
            r11.violation(adt.split("::")[-1], "%s not found (anchor lost)" % adt)
            continue
        mod = adt.rsplit("::", 1)[0] + "::"
        short = adt.split("::")[-1]
        builders, muts = [], []
        for p, f in F.fns.items():
            if any(s_["k"] == "assign" and s_["rv"]["k"] == "agg" and s_["rv"].get("adt") == adt for b in f["blocks"] for s_ in b["stmts"]):
                builders.append(f)
            if any(t.startswith("&mut") and adt in t for t in f["locals"][1:f.get("argc", 0) + 1]):
                muts.append(f)
            # a mutable borrow of the payload taken inside a method (`&mut self.0` / `match self { Small(b) => b }` on &mut)
        outside = [f["path"] for f in builders if not (f["path"].lstrip("<").startswith(mod) or f.get("impl_self", "").split("<")[0] == adt)]
        if outside:
            r11.violation(short + "/constructed", "%s is constructed outside its module by %s: the length-prefix invariant is no longer local" % (short, outside[:3]))
        else:
            r11.ok(short + "/constructed", sorted(panics.short_fn(f["path"]) for f in builders))
        if muts:
            r11.violation(short + "/mutable", "%s is reachable mutably through %s: its stored bytes can change after validation" % (short, [f["path"] for f in muts][:3]))
        else:
            r11.ok(short + "/mutable", "no function takes &mut %s" % short)


def natural_loops(f):
    bm = {b["i"]: b for b in f["blocks"]}

    def succs(b):
        t = b["term"]
        k = t["k"]
        if k in ("goto", "drop", "assert"):
            return [t["t"]]
        if k == "call":
            return [t["t"]] if t["t"] is not None else []
        if k == "switch":
            return [x[1] for x in t["targets"]] + [t["otherwise"]]
        return []
    # DFS for back edges
    color = {}
    back = []
    stack = [(0, iter(succs(bm[0])))]
    color[0] = 1
    while stack:
        u, it = stack[-1]
        try:
            v = next(it)
            if v not in bm or bm[v].get("cleanup"):
                continue
            if color.get(v) == 1:
                back.append((u, v))
            elif v not in color:
                color[v] = 1
                stack.append((v, iter(succs(bm[v]))))
        except StopIteration:
            color[u] = 2
            stack.pop()
    loops = {}
    preds = {}
    for b in f["blocks"]:
        for s in succs(b):
            preds.setdefault(s, []).append(b["i"])
    for (u, h) in back:
        body = {h, u}
        work = [u]
        while work:
            x = work.pop()
            if x == h:
                continue
            for pr in preds.get(x, []):
                if pr not in body:
                    body.add(pr)
                    work.append(pr)
        loops.setdefault(h, set()).update(body)
    return sorted(loops.items())


def classify_loop(F, f, head, body):
    bm = {b["i"]: b for b in f["blocks"]}
    calls = []
    for i in body:
        t = bm[i]["term"]
        if t["k"] == "call" and "fn" in t["func"].get("const", {}):
            calls.append(t["func"]["const"]["fn"])
    names = [c["path"] for c in calls]
    if any(n.endswith("Iterator>::next") or n.endswith("::Iterator::next") for n in names):
        return ("iterator", "driven by Iterator::next")
    # cursor loop: an exit switch on Lt/Ge(cursor, bound) and an AddWithOverflow into the same local by a positive amount;
    # the cursor may live in a small private helper object (`reader.advance(n)` / `reader.is_exhausted()`): the bodies of
    # such helpers called in the loop count as part of it
    stmts_all = [s for i in body for s in bm[i]["stmts"]]
    for c in calls:
        cp = (c.get("res") or {}).get("path", c["path"])
        g = F.fns.get(cp)
        if g is not None and explore.small_private_helper(g):
            stmts_all += [s for b in g["blocks"] for s in b["stmts"]]
    incs = [s for s in stmts_all if s["k"] == "assign" and s["rv"]["k"] == "bin" and s["rv"]["op"] in ("AddWithOverflow", "Add")]
    cmps = [s for s in stmts_all if s["k"] == "assign" and s["rv"]["k"] == "bin" and s["rv"]["op"] in ("Lt", "Ge", "Le", "Gt", "Ne", "Eq")]
    if incs and cmps:
        # amount added: a constant >= 1, or a `consumed` count of an in-crate decoder (R6 + decoders consume >= 1 byte on success)
        pos = False
        for s in incs:
            for o in (s["rv"]["a"], s["rv"]["b"]):
                if "const" in o and o["const"].get("bits", 0) >= 1:
                    pos = True
        dec = any(n in F.fns and is_decoder_ret(F.fns[n]) for n in names) or any("read" in n.split("::")[-1] for n in names)
        if pos or dec:
            return ("cursor", "cursor advanced by %s and compared with a bound" % ("a positive constant" if pos else "a decoder's consumed count"))
    # value repeatedly divided by a constant > 1 until it reaches zero (variable-byte-integer encoder)
    divs = []
    for i in body:
        for s in bm[i]["stmts"]:
            if s["k"] == "assign" and s["rv"]["k"] == "bin" and s["rv"]["op"] == "Div" and "const" in s["rv"]["b"] and s["rv"]["b"]["const"].get("bits", 0) > 1:
                divs.append(s)
            # the same step spelled as a right shift: x = x >> c, c >= 1
            if s["k"] == "assign" and s["rv"]["k"] == "bin" and s["rv"]["op"] in ("Shr", "ShrUnchecked") and "const" in s["rv"]["b"] \
                    and s["rv"]["b"]["const"].get("bits", 0) >= 1 and not s["lhs"]["p"]:
                src = s["rv"]["a"].get("copy") or s["rv"]["a"].get("move")
                if src is not None and src["l"] == s["lhs"]["l"] and not src["p"]:
                    divs.append(s)
    if divs and cmps:
        return ("cursor", "value divided by a constant > 1 (or shifted right by a constant >= 1) each iteration and compared with zero")
    return ("unknown", "calls=%s" % [n.split("::")[-1] for n in names][:6])
