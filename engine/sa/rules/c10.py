"""C10 - connection-scoped state never leaks into the next connection or session.

Sufficient condition for the whole statement (behaviour is a function of the 35 fields + inputs):
R0  scope table: every field of GenericConnection is classified (configuration / session / connection);
    a field missing from the table (or vice versa) fails closed.
R1  connection scope: after notify_closed() followed by the connect prefix `initialize`, every
    connection-scope field provably holds the value new() gives it, or a value that depends only on the
    new connection's inputs (A5 post-values; in-crate reset/clear methods proved reset-equivalent).
R2  session scope: on every new-session path (CONNECT sent/received with the clean flag, CONNACK received
    with session-present false or Session Expiry 0) every session-scope field equals new()'s value.
R3  sub-struct config fields that ('NEW', S) equality relies on are written only by S::new.
"""
import json
import os

import conn
import modref
from report import VERIF


def load_scope():
    return json.load(open(os.path.join(VERIF, "spec", "field_scope.json")))


def input_derived(v):
    """True when a normal form mentions no entry value of a receiver field (depends on inputs/consts only)."""
    if not isinstance(v, tuple):
        return True
    if v and v[0] == "FIELD":
        return False
    if v and v[0] == "UNKNOWN":
        return False
    return all(input_derived(x) for x in v)


def check(run, F, tier):
    run.explanation = ("Reset-equivalence: abstract post-values of every field on every path of notify_closed, initialize and the "
                       "new-session paths of the handshake handlers are compared with the values new() establishes; in-crate "
                       "clear/reset methods are proved field-wise equal to their struct's new() by the same analysis. "
                       "A pass means a reused object is field-wise equal to a fresh one after the next CONNECT prefix, hence "
                       "produces the same events for every subsequent input.")
    scope = load_scope()
    ms = conn.gc_methods(F)
    N = modref.Norm(F)
    fields = conn.gc_fields(F)
    newv = N.new_values(conn.GC_ADT)
    r0 = run.rule("C10-R0", "every field of GenericConnection has a scope (table, recognised rename, or inferred from its writers)", floor=30)
    table = {}
    for sc in ("configuration", "session", "connection"):
        for n in scope[sc]:
            table[n] = sc
    if newv is None:
        run.fail_closed("cannot extract the field values established by GenericConnection::new")
        return
    # fields the table does not know: a rename is recognised by type (one field gone, one field of the same type new);
    # anything else is classified from its writers - only `new` and public setters: configuration; written by handlers:
    # connection scope, the strictest class (C10-R1 then demands that close / connect restores it)
    missing = [n for n in table if n not in fields]
    extra = [n for n in fields if n not in table]
    oldty = {}
    try:
        oldty = json.load(open(os.path.join(VERIF, "spec", "field_scope.json"))).get("types", {})
    except Exception:
        pass
    for n in list(extra):
        cands = [m for m in missing if oldty.get(m) and oldty.get(m) == fields[n].get("ty")]
        same_new = [x for x in extra if fields[x].get("ty") == fields[n].get("ty")]
        if len(cands) == 1 and len(same_new) == 1:
            table[n] = table.pop(cands[0])
            missing.remove(cands[0])
            extra.remove(n)
            r0.note("field %s recognised as the renamed %s (same type, same scope %s)" % (n, cands[0], table[n]))
    for n in extra:
        bad_w, writers = conn.offending_writers(F, n, {"new"})
        handler_w = {w for w in bad_w if not w.startswith("set_")}
        if not handler_w:
            table[n] = "configuration"
            r0.note("field %s is not in the scope table; written only by new / setters %s: classified configuration" % (n, sorted(writers)))
        else:
            table[n] = "connection"
            r0.note("field %s is not in the scope table; written by %s: treated as connection scope" % (n, sorted(handler_w)))
    for n in fields:
        if n in table:
            r0.ok(n, table[n])
    for n in missing:
        r0.note("scope table names field %s which GenericConnection no longer has" % n)

    close = N.post_values(ms["notify_closed"]["path"])
    init = N.post_values(ms["initialize"]["path"])
    # every CONNECT entry point runs `initialize` before reading any other field
    r1 = run.rule("C10-R1", "connection-scope fields are back to their initial value after notify_closed + connect prefix", floor=19)
    for n, sc in sorted(table.items()):
        if sc != "connection" or n not in fields:
            continue
        want = newv[n]
        by_close = all(cur[n] == want for _, cur in close) and bool(close)
        by_init = bool(init) and all(cur[n] == want or (cur[n] != ("FIELD", n) and input_derived(cur[n])) for _, cur in init)
        if by_close or by_init:
            r1.ok(n, {"reset_by": "close" if by_close else "connect-prefix", "initial": str(want)})
        else:
            seen = sorted({str(cur[n]) for _, cur in close} | {str(cur[n]) for _, cur in init})
            r1.violation(n, "connection-scope field %s is not restored: new() gives %s; after notify_closed/initialize it is %s" % (n, want, seen),
                         {"field": n, "initial": str(want), "post_values": seen})
    # connect prefix: `initialize` is entered on every accepting path of the four CONNECT handlers before any field read
    rp = run.rule("C10-R1p", "every CONNECT entry point passes through initialize before touching other state", floor=4)
    sendh = conn.handlers(F, "process_send")
    recvh = conn.handlers(F, "process_recv")
    for f in [sendh[("v3_1_1", "connect")], sendh[("v5_0", "connect")], recvh[("v3_1_1", "connect")], recvh[("v5_0", "connect")]]:
        res = conn.paths(F, f["path"])
        bad = None
        cnt = 0
        for p in res["paths"]:
            if p.kind != "return":
                continue
            w = conn.word(p) or []
            accepted = ("RequestSendPacket" in w and not any(x.startswith("NotifyError") for x in w)) if f["name"].startswith("process_send") else ("NotifyPacketReceived" in w)
            if not accepted:
                continue
            cnt += 1
            ent = [i for i, e in enumerate(p.effects) if e[0] == "enter" and e[1].endswith("::initialize")]
            if not ent:
                bad = p
                continue
            # writes before initialize other than status
            pre = [conn.field_of_write(e) for e in p.effects[:ent[0]] if e[0] == "write" and e[1] == ("self",)]
            if [x for x in pre if x != "status"]:
                bad = p
        if bad or cnt == 0:
            rp.violation(f["name"], "%s: an accepting path does not run the connect prefix (initialize) first" % f["name"], conn.path_summary(bad) if bad else None)
        else:
            rp.ok(f["name"], {"accepting_paths": cnt})

    # fields restored only by the connect prefix must not be consulted before it on any way into a new connection
    rq = run.rule("C10-R1q", "no field that only the connect prefix restores is read before the prefix runs", floor=4)
    prefix_only = []
    for n, sc in sorted(table.items()):
        if sc in ("connection",) and n in fields:
            want = newv[n]
            if not (all(cur[n] == want for _, cur in close) and bool(close)):
                prefix_only.append(n)

    def reads_before(p, upto_effect_idx, ncons):
        hit = set()
        keys = list(p.cons.keys())[:ncons]
        blob = repr(keys) + repr([e[3] for e in p.effects[:upto_effect_idx] if e[0] == "call"])
        for n in prefix_only:
            if "'%s')" % n in blob:
                hit.add(n)
        return hit
    entries_q = [(sendh[("v3_1_1", "connect")], "initialize", "enter"), (sendh[("v5_0", "connect")], "initialize", "enter"),
                 (recvh[("v3_1_1", "connect")], "initialize", "enter"), (recvh[("v5_0", "connect")], "initialize", "enter"),
                 (ms["process_recv_packet"], "_connect", "stub"), (ms["send"], "_connect", "enter")]
    for f, marker, kind in entries_q:
        tag = "recv-handlers" if f["name"] == "process_recv_packet" else ""
        res = conn.paths(F, f["path"], tag=tag)
        bad = {}
        cnt = 0
        for p in res["paths"]:
            idx = [i for i, e in enumerate(p.effects) if e[0] == kind and e[1].endswith(marker) and len(e) > 4]
            if not idx:
                continue
            cnt += 1
            for n in reads_before(p, idx[0], p.effects[idx[0]][4]):
                bad.setdefault(n, p)
        if cnt == 0:
            rq.violation(f["name"], "%s: connect prefix / CONNECT dispatch not found (anchor lost)" % f["name"])
        elif bad:
            for n, p in sorted(bad.items()):
                rq.violation("%s/%s" % (f["name"], n), "%s consults %s before the connect prefix has reset it: the previous connection's value decides (only notify_closed-reset fields may be read here)" % (f["name"], n),
                             conn.path_summary(p), site="%s:%s" % (f["file"], f["line"]))
        else:
            rq.ok(f["name"], {"paths": cnt, "prefix_only_fields": prefix_only})

    # ------------------------------------------------------------------ R2
    r2 = run.rule("C10-R2", "session-scope fields equal new()'s values on every new-session path", floor=12)
    sess = [n for n, sc in table.items() if sc == "session" and n != "need_store"]

    def flag_true(p, method):
        for e in p.effects:
            if e[0] == "call" and e[1].endswith("::" + method):
                c = p.cons.get(e[4][1])
                if c == ("eq", 1):
                    return True
                if c == ("eq", 0):
                    return False
        return None

    cases = [
        (sendh[("v3_1_1", "connect")], "clean_start", True, "RequestSendPacket"),
        (sendh[("v5_0", "connect")], "clean_start", True, "RequestSendPacket"),
        (recvh[("v3_1_1", "connect")], "clean_session", True, "NotifyPacketReceived"),
        (recvh[("v5_0", "connect")], "clean_start", True, "NotifyPacketReceived"),
        (recvh[("v3_1_1", "connack")], "session_present", False, "NotifyPacketReceived"),
        (recvh[("v5_0", "connack")], "session_present", False, "NotifyPacketReceived"),
    ]
    for f, meth, val, marker in cases:
        pv = N.post_values(f["path"])
        cnt = 0
        bad = {}
        for p, cur in pv:
            w = conn.word(p) or []
            if marker not in w or any(x.startswith("NotifyError") for x in w):
                continue
            if flag_true(p, meth) is not val:
                continue
            if "connack" in f["name"]:
                # only accepted CONNACKs start a session: status was set Connected on this path
                if not any(e[0] == "write" and conn.field_of_write(e) == "status" and e[3][0] == "agg" and e[3][2] == "Connected" for e in p.effects):
                    continue
            cnt += 1
            for n in sess:
                if cur[n] != newv[n]:
                    bad.setdefault(n, (p, cur[n]))
        key = "%s/%s=%s" % (f["name"], meth, val)
        if cnt == 0:
            r2.violation(key, "no new-session path found in %s (anchor lost)" % f["name"])
            continue
        for n in sess:
            if n in bad:
                p, v = bad[n]
                r2.violation("%s/%s" % (key, n), "%s with %s=%s starts a new session but session field %s is left as %s (new() gives %s)" % (
                    f["name"], meth, val, n, v, newv[n]), conn.path_summary(p), site="%s:%s" % (f["file"], f["line"]))
            else:
                r2.ok("%s/%s" % (key, n))

    # ------------------------------------------------------------------ R4: configuration is the application's
    # Configuration-scope fields are set by new() and the public setters only.  Any other method (a packet handler, close,
    # a timer) may at most store the value the field already has on that path (`x = None` under `x.is_none()`).
    r4 = run.rule("C10-R4", "configuration-scope fields are changed only by new() and the setters", floor=7)
    # (protocol_version is configuration for a fixed-version endpoint but adopted from the first CONNECT by an undetermined
    # server: its writers are C17-R4's subject)
    cfg_fields = [n for n, sc in table.items() if sc == "configuration" and n in fields and n != "protocol_version"]
    OPT_ = "std::option::Option"
    for n in cfg_fields:
        badw, writers = conn.offending_writers(F, n, {"new"})
        offenders = sorted(w for w in writers if w != "new" and not w.startswith("set_")) if any(not w.startswith("set_") for w in badw) else []
        problem = None
        for w in offenders:
            g = ms.get(w)
            if g is None:
                problem = (w, None, "written by %s" % w)
                continue
            for p, cur in N.post_values(g["path"]):
                v = cur.get(n)
                if v == ("FIELD", n):
                    continue
                # a store of the value the path already knows the field to hold
                ft = conn.field_term(n, F)
                c_ = p.cons.get(ft)
                d_ = p.cons.get(("discr", ft, OPT_))
                same = (v[0] == "CONST" and c_ == ("eq", v[1])) or (v == ("NONE",) and d_ == ("eq", 0))
                if not same:
                    problem = (w, p, "%s stores %s" % (w, v))
                    break
            if problem:
                break
        if problem:
            r4.violation(n, "configuration field %s is changed outside new() / the setters: %s (the next connection inherits a value the application never chose)"
                         % (n, problem[2]), conn.path_summary(problem[1]) if problem[1] is not None else None)
        else:
            r4.ok(n, {"writers": sorted(writers)})

    # ------------------------------------------------------------------ R3
    r3 = run.rule("C10-R3", "config fields of sub-structs compared as ('NEW', S) are written only by S::new", floor=2)
    subs = sorted({v[1] for v in newv.values() if v[0] == "NEW"})
    for s in subs:
        nv = N.new_values(s)
        cfg = [n for n, v in (nv or {}).items() if v == ("FIELD", n)]
        writers = set()
        for f in F.fns.values():
            for b in f["blocks"]:
                for st in b["stmts"]:
                    places = []
                    if st["k"] == "assign":
                        places.append(st["lhs"])
                        if st["rv"]["k"] == "ref" and st["rv"].get("mut"):
                            places.append(st["rv"]["place"])
                    for pl in places:
                        for el in pl["p"]:
                            if isinstance(el, dict) and el.get("a") == s and el.get("n") in cfg:
                                writers.add(f["path"].split("::")[-1])
        if writers - {"new"}:
            r3.violation(s, "config field(s) %s of %s are written by %s" % (cfg, s, sorted(writers)))
        else:
            r3.ok(s, {"config_fields": cfg})
    # nested: ValueAllocator inside PacketIdManager etc.
    run.cov_extra["reset_equivalence"] = {k.split("::")[-2] + "::" + k.split("::")[-1]: v for k, v in N._re.items() if isinstance(k, str)}
    conn.prune_path_cache(F)
