"""C14 - Maximum Packet Size honoured in both directions.

R1  validate-before-emit: in every v5 handler each RequestSendPacket{packet: p} lies on a path where
    `size(q) > maximum_packet_size_send` was tested false for the very packet value p derives from.
R2  no growth after the check: the emitted packet is the checked one (same abstract value; a rewrite by a
    length-changing method after the check yields a different value and is reported).
R3  send_stored compares each stored element's size with the limit before re-emitting it; the dropped
    branch releases and announces the id.
R4  who-may-write the two limits: handshake handlers, close, new only.
R5  receive: the total-size test in process_recv_packet dominates every handler call; exceeding =>
    DISCONNECT(PacketTooLarge) + NotifyError(PacketTooLarge), nothing delivered;
    remaining_length_to_total_size uses the variable-byte-integer width boundaries 128 / 16384 / 2097152.
"""
import conn

LIMIT_WRITERS = {
    "maximum_packet_size_send": {"new", "notify_closed", "process_recv_v5_0_connack", "process_recv_v5_0_connect"},
    "maximum_packet_size_recv": {"new", "notify_closed", "process_send_v5_0_connack", "process_send_v5_0_connect"},
}


def size_checked(p, interned, q):
    """The path established size(q) <= maximum_packet_size_send."""
    for k, c in p.cons.items():
        if k[0] == "cmp" and k[1] == "Lt" and c == ("eq", 0):
            ke = conn.expand_all(interned, k)
            a, b = ke[2], ke[3]
            if "maximum_packet_size_send" in repr(a) and b[0] == "sym" and b[1][0] == "call" and b[1][1].endswith("::size"):
                if b[1][2] and b[1][2][0] == q:
                    return True
    return False


def check(run, F, tier):
    run.explanation = "Validate-before-emit with value identity between the checked and the emitted packet on all abstract paths of the v5 send handlers and send_stored; receive-side gate in process_recv_packet."
    ms = conn.gc_methods(F)
    sendh = conn.handlers(F, "process_send")
    OPT = "std::option::Option"

    r1 = run.rule("C14-R1", "every v5 emission is dominated by a successful size check of the emitted packet value (no growth after the check)", floor=12)
    for (ver, kind), f in sorted(sendh.items()):
        if ver != "v5_0":
            continue
        res = conn.paths(F, f["path"])
        interned = res["interned"]
        problems = {}
        n = 0
        for p in res["paths"]:
            if p.kind != "return":
                continue
            for i, ev in conn.pushes(p, "RequestSendPacket"):
                site = p.effects[i][3]
                if site[0] != f["path"]:
                    continue   # emissions of callees (send_stored) are checked in their own rule
                n += 1
                pk = conn.expand_all(interned, ev[3][0])
                q = None
                if pk[0] == "sym" and pk[1][0] == "into":
                    q = pk[1][1]
                if q is None:
                    problems.setdefault("emitted packet value has no recognised provenance", p)
                    continue
                if not size_checked(p, interned, q):
                    how = q[1][1].split("::")[-1] + "(..)" if (q[0] == "sym" and q[1][0] == "call") else conn.short(q)[:60]
                    problems.setdefault("emits %s whose size was not checked against the peer's Maximum Packet Size on this path" % how, p)
        for pr, p in sorted(problems.items()):
            r1.violation("%s/%s" % (f["name"], pr), "%s: %s" % (f["name"], pr), conn.path_summary(p), site="%s:%s" % (f["file"], f["line"]))
        if not problems:
            if n == 0:
                r1.violation(f["name"], "no emission found in %s" % f["name"])
            else:
                r1.ok(f["name"], {"emissions_on_paths": n})

    r3 = run.rule("C14-R3", "send_stored filters oversize stored packets and releases their ids", floor=1)
    f = ms["send_stored"]
    res = conn.paths(F, f["path"])
    interned = res["interned"]
    problems = {}
    kept = dropped = 0
    for p in res["paths"]:
        if p.kind != "return":
            continue
        szs = {}
        for k, c in p.cons.items():
            if k[0] == "cmp" and k[1] == "Lt" and c[0] == "eq":
                ke = conn.expand_all(interned, k)
                if "maximum_packet_size_send" in repr(ke[2]) and "::size" in repr(ke[3]):
                    szs[repr(ke[3])] = (c[1] == 1)
        for i, ev in conn.pushes(p, "RequestSendPacket"):
            kept += 1
            if not szs or any(szs.values()) and len(szs) == 1:
                problems.setdefault("stored packet re-emitted without `size <= limit` established", p)
        for i, ev in conn.pushes(p, "NotifyPacketIdReleased"):
            dropped += 1
            if not any(szs.values()):
                problems.setdefault("stored packet dropped although not oversize", p)
            if not conn.calls(p, "PacketIdManager::<T>::release_id"):
                problems.setdefault("dropped stored packet: id announced but not released", p)
    if kept == 0 or dropped == 0:
        problems.setdefault("kept=%d dropped=%d (shape not recognised)" % (kept, dropped), None)
    for pr, p in sorted(problems.items()):
        r3.violation("send_stored/" + pr, "send_stored: " + pr, conn.path_summary(p) if p else None)
    if not problems:
        r3.ok("send_stored", {"kept": kept, "dropped": dropped})

    r4 = run.rule("C14-R4", "who-may-write maximum_packet_size_send / _recv", floor=2)
    for fld, allowed in sorted(LIMIT_WRITERS.items()):
        extra, writers = conn.offending_writers(F, fld, allowed)
        writers = {"new" if w == "new" else w for w in writers}
        if extra:
            r4.violation(fld, "%s is written by %s (allowed: %s)" % (fld, sorted(extra), sorted(allowed)))
        elif not (writers & (allowed - {"new", "notify_closed"})):
            r4.violation(fld, "%s is never set from a handshake packet (writers: %s)" % (fld, sorted(writers)))
        else:
            r4.ok(fld, sorted(writers))

    r5 = run.rule("C14-R5", "receive gate: total size test dominates dispatch; oversize => DISCONNECT(PacketTooLarge), nothing delivered", floor=3)
    res = conn.paths(F, ms["process_recv_packet"]["path"], tag="recv-handlers")
    interned = res["interned"]
    ptl = conn.wire_value(F, "mqtt::result_code::DisconnectReasonCode", "PacketTooLarge")
    problems = {}
    n_over = n_ok = 0
    for p in res["paths"]:
        if p.kind != "return":
            continue
        over = None
        for k, c in p.cons.items():
            if k[0] == "cmp" and k[1] == "Lt" and c[0] == "eq":
                ke = conn.expand_all(interned, k)
                if "maximum_packet_size_recv" in repr(ke[2]) and "remaining_length_to_total_size" in repr(ke[3]):
                    over = (c[1] == 1)
        stubs = [e for e in p.effects if e[0] == "stub"]
        w = [conn.ev_name(e) for e in (p.events() or ()) if not (isinstance(e, tuple) and e and e[0] == "sub")]
        if over is None:
            if stubs:
                problems.setdefault("a handler is reached on a path that did not test the total size against maximum_packet_size_recv", p)
            continue
        if over:
            n_over += 1
            if stubs:
                problems.setdefault("oversize packet reaches a handler", p)
            if "NotifyError(PacketTooLarge)" not in w:
                problems.setdefault("oversize packet not reported as PacketTooLarge", p)
            ent = [e for e in p.effects if e[0] == "enter" and e[1].endswith("process_send_v5_0_disconnect")]
            if not any(conn.agg_field(F, e[2][1], "reason_code_buf") == ("agg", OPT, "Some", (("arr", (("c", ptl, "u8"),)),)) for e in ent):
                problems.setdefault("oversize packet not answered with DISCONNECT(PacketTooLarge)", p)
        else:
            n_ok += 1
    if n_over == 0 or n_ok == 0:
        problems.setdefault("oversize=%d within=%d paths (anchor lost)" % (n_over, n_ok), None)
    for pr, p in sorted(problems.items()):
        r5.violation("process_recv_packet/" + pr, "process_recv_packet: " + pr, conn.path_summary(p) if p else None)
    if not problems:
        r5.ok("process_recv_packet", {"oversize_paths": n_over, "dispatch_paths": n_ok})
    # width table
    g = [x for x in F.fns.values() if x["path"].endswith("::remaining_length_to_total_size")]
    if len(g) != 1:
        r5.violation("width-table", "remaining_length_to_total_size anchor lost")
    else:
        resw = conn.paths(F, g[0]["path"])
        table = {}
        for p in resw["paths"]:
            if p.kind != "return":
                continue
            bounds = []
            for k, c in p.cons.items():
                if k[0] == "cmp" and k[1] == "Lt" and k[3][0] == "c":
                    bounds.append((k[3][1], c == ("eq", 1)))
            r = conn.expand_all(resw["interned"], p.ret)
            # ret = 1 + bytes + rl : find the constant byte count
            s = repr(r)
            import re as _re
            m = _re.findall(r"\('c', (\d), 'u32'\)", s)
            table[tuple(sorted(bounds))] = m
        # constant part of the result = 1 (fixed header byte) + width of the remaining-length field
        want = {((128, True),): "2", ((128, False), (16384, True)): "3", ((128, False), (16384, False), (2097152, True)): "4",
                ((128, False), (16384, False), (2097152, False)): "5"}
        good = len(table) == 4
        for k, tot in want.items():
            got = table.get(tuple(sorted(k)))
            if got != [tot]:
                good = False
        if good:
            r5.ok("width-table", "128/16384/2097152 -> 1/2/3/4 bytes, +1 fixed header byte")
        else:
            r5.violation("width-table", "remaining_length_to_total_size does not implement the variable-byte-integer width table: %s" % table)
    r5.ok("gate-shape") if not problems else None
    conn.prune_path_cache(F)
