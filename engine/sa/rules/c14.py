"""C14 - Maximum Packet Size honoured in both directions.

R1  validate-before-emit: in every v5 handler each RequestSendPacket{packet: p} lies on a path where
    `size(q) > maximum_packet_size_send` was tested false for the very packet value p derives from.
R2  no growth after the check: the emitted packet is the checked one (same abstract value; a rewrite by a
    length-changing method after the check yields a different value and is reported).
R3  send_stored compares each stored element's size with the limit before re-emitting it; the dropped
    branch releases and announces the id.
R4  who-may-write the two limits: handshake handlers, close, new only.
R5  receive: the total-size test in process_recv_packet dominates every handler call; exceeding =>
    DISCONNECT(PacketTooLarge) + NotifyError(PacketTooLarge), nothing delivered;
    remaining_length_to_total_size uses the variable-byte-integer width boundaries 128 / 16384 / 2097152.
"""
import conn

LIMIT_WRITERS = {
    "maximum_packet_size_send": {"new", "notify_closed", "process_recv_v5_0_connack", "process_recv_v5_0_connect"},
    "maximum_packet_size_recv": {"new", "notify_closed", "process_send_v5_0_connack", "process_send_v5_0_connect"},
}


def size_checked(p, interned, q):
    """The path established size(q) <= maximum_packet_size_send."""
    for k, c in p.cons.items():
        if k[0] == "cmp" and k[1] == "Lt" and c == ("eq", 0):
            ke = conn.expand_all(interned, k)
            a, b = ke[2], ke[3]
            if "maximum_packet_size_send" in repr(a) and b[0] == "sym" and b[1][0] == "call" and b[1][1].endswith("::size"):
                if b[1][2] and b[1][2][0] == q:
                    return True
    return False


def check(run, F, tier):
    run.explanation = "Validate-before-emit with value identity between the checked and the emitted packet on all abstract paths of the v5 send handlers and send_stored; receive-side gate in process_recv_packet."
    ms = conn.gc_methods(F)
    sendh = conn.handlers(F, "process_send")
    OPT = "std::option::Option"

    r1 = run.rule("C14-R1", "every v5 emission is dominated by a successful size check of the emitted packet value (no growth after the check)", floor=12)
    for (ver, kind), f in sorted(sendh.items()):
        if ver != "v5_0":
            continue
        res = conn.paths(F, f["path"])
        interned = res["interned"]
        problems = {}
        n = 0
        for p in res["paths"]:
            if p.kind != "return":
                continue
            own = conn.own_effect_indices(p)
            for i, ev in conn.pushes(p, "RequestSendPacket"):
                if i not in own:
                    continue   # emissions of nested send handlers / send_stored are checked in their own rule; the handler's
                               # own emission may sit in a private helper it delegates to
                n += 1
                pk = conn.expand_all(interned, ev[3][0])
                q = None
                if pk[0] == "sym" and pk[1][0] == "into":
                    q = pk[1][1]
                if q is None:
                    problems.setdefault("emitted packet value has no recognised provenance", p)
                    continue
                if not size_checked(p, interned, q):
                    how = q[1][1].split("::")[-1] + "(..)" if (q[0] == "sym" and q[1][0] == "call") else conn.short(q)[:60]
                    problems.setdefault("emits %s whose size was not checked against the peer's Maximum Packet Size on this path" % how, p)
        for pr, p in sorted(problems.items()):
            r1.violation("%s/%s" % (f["name"], pr), "%s: %s" % (f["name"], pr), conn.path_summary(p), site="%s:%s" % (f["file"], f["line"]))
        if not problems:
            if n == 0:
                r1.violation(f["name"], "no emission found in %s" % f["name"])
            else:
                r1.ok(f["name"], {"emissions_on_paths": n})

    r3 = run.rule("C14-R3", "send_stored filters oversize stored packets and releases their ids", floor=1)
    f = ms["send_stored"]
    res = conn.paths(F, f["path"])
    interned = res["interned"]
    problems = {}
    kept = dropped = 0
    for p in res["paths"]:
        if p.kind != "return":
            continue
        szs = {}
        for k, c in p.cons.items():
            if k[0] == "cmp" and k[1] == "Lt" and c[0] == "eq":
                ke = conn.expand_all(interned, k)
                if "maximum_packet_size_send" in repr(ke[2]) and "::size" in repr(ke[3]):
                    szs[repr(ke[3])] = (c[1] == 1)
        for i, ev in conn.pushes(p, "RequestSendPacket"):
            kept += 1
            if not szs or any(szs.values()) and len(szs) == 1:
                problems.setdefault("stored packet re-emitted without `size <= limit` established", p)
        for i, ev in conn.pushes(p, "NotifyPacketIdReleased"):
            dropped += 1
            if not any(szs.values()):
                problems.setdefault("stored packet dropped although not oversize", p)
            if not conn.calls(p, "PacketIdManager::<T>::release_id"):
                problems.setdefault("dropped stored packet: id announced but not released", p)
    if kept == 0 or dropped == 0:
        problems.setdefault("kept=%d dropped=%d (shape not recognised)" % (kept, dropped), None)
    for pr, p in sorted(problems.items()):
        r3.violation("send_stored/" + pr, "send_stored: " + pr, conn.path_summary(p) if p else None)
    if not problems:
        r3.ok("send_stored", {"kept": kept, "dropped": dropped})

    r4 = run.rule("C14-R4", "who-may-write maximum_packet_size_send / _recv", floor=2)
    for fld, allowed in sorted(LIMIT_WRITERS.items()):
        extra, writers = conn.offending_writers(F, fld, allowed)
        writers = {"new" if w == "new" else w for w in writers}
        if extra:
            r4.violation(fld, "%s is written by %s (allowed: %s)" % (fld, sorted(extra), sorted(allowed)))
        elif not (writers & (allowed - {"new", "notify_closed"})):
            r4.violation(fld, "%s is never set from a handshake packet (writers: %s)" % (fld, sorted(writers)))
        else:
            r4.ok(fld, sorted(writers))

    r5 = run.rule("C14-R5", "receive gate: total size test dominates dispatch; oversize => DISCONNECT(PacketTooLarge), nothing delivered", floor=3)
    res = conn.paths(F, ms["process_recv_packet"]["path"], tag="recv-handlers")
    interned = res["interned"]
    ptl = conn.wire_value(F, "mqtt::result_code::DisconnectReasonCode", "PacketTooLarge")
    problems = {}
    total_size_fns = set()
    n_over = n_ok = 0
    for p in res["paths"]:
        if p.kind != "return":
            continue
        over = None
        for k, c in p.cons.items():
            if k[0] == "cmp" and k[1] == "Lt" and c[0] == "eq":
                ke = conn.expand_all(interned, k)
                if "maximum_packet_size_recv" in repr(ke[2]):
                    # the other operand: f(remaining_length(raw_packet)) for a local function f (the total packet size)
                    t3 = ke[3]
                    fn_ = None
                    while isinstance(t3, tuple) and t3 and t3[0] == "sym":
                        t3 = t3[1]
                    if isinstance(t3, tuple) and t3 and t3[0] == "call" and t3[1] in F.fns and "remaining_length" in repr(t3[2]):
                        fn_ = t3[1]
                    if fn_ is not None:
                        total_size_fns.add(fn_)
                        over = (c[1] == 1)
                elif "maximum_packet_size_recv" in repr(ke[3]):
                    t2 = ke[2]
                    while isinstance(t2, tuple) and t2 and t2[0] == "sym":
                        t2 = t2[1]
                    if isinstance(t2, tuple) and t2 and t2[0] == "call" and t2[1] in F.fns and "remaining_length" in repr(t2[2]):
                        # written as `total < limit` / `total >= limit`: a packet of exactly the limit counts as oversize,
                        # while the sending side (C14-R1) refuses only `size > limit`
                        total_size_fns.add(t2[1])
                        over = (c[1] == 0)
                        problems.setdefault("the receive gate treats a packet whose size equals the limit as oversize (`>=`), the send side refuses only `>`", p)
        stubs = [e for e in p.effects if e[0] == "stub"]
        w = [conn.ev_name(e) for e in (p.events() or ()) if not (isinstance(e, tuple) and e and e[0] == "sub")]
        if over is None:
            if stubs:
                problems.setdefault("a handler is reached on a path that did not test the total size against maximum_packet_size_recv", p)
            continue
        if over:
            n_over += 1
            if stubs:
                problems.setdefault("oversize packet reaches a handler", p)
            if "NotifyError(PacketTooLarge)" not in w:
                problems.setdefault("oversize packet not reported as PacketTooLarge", p)
            ent = [e for e in p.effects if e[0] == "enter" and e[1].endswith("process_send_v5_0_disconnect")]
            if not any(conn.agg_field(F, e[2][1], "reason_code_buf") == ("agg", OPT, "Some", (("arr", (("c", ptl, "u8"),)),)) for e in ent):
                problems.setdefault("oversize packet not answered with DISCONNECT(PacketTooLarge)", p)
        else:
            n_ok += 1
    if n_over == 0 or n_ok == 0:
        problems.setdefault("oversize=%d within=%d paths (anchor lost)" % (n_over, n_ok), None)
    for pr, p in sorted(problems.items()):
        r5.violation("process_recv_packet/" + pr, "process_recv_packet: " + pr, conn.path_summary(p) if p else None)
    if not problems:
        r5.ok("process_recv_packet", {"oversize_paths": n_over, "dispatch_paths": n_ok})
    # width table: the function applied to the Remaining Length in the gate comparison is evaluated on concrete values on both
    # sides of every width boundary (whatever its spelling: if-chain, match on ranges, arithmetic)
    tsf = sorted(total_size_fns)
    if len(tsf) != 1 or tsf[0] not in F.fns:
        r5.violation("width-table", "the function that turns the Remaining Length into the total packet size was not identified in the gate comparison: %s" % tsf)
    else:
        import explore as _ex
        g0 = F.fns[tsf[0]]
        bad_w = []
        for n_, width in ((0, 1), (127, 1), (128, 2), (16383, 2), (16384, 3), (2097151, 3), (2097152, 4), (268435455, 4)):
            def setup_w(exx, st, fr, n_=n_):
                st.heap[(fr.root(1), ())] = ("c", n_, g0["locals"][1])
            exw = _ex.Explorer(F)
            rets = [pw.ret for pw in exw.run(g0["path"], setup=setup_w) if pw.kind == "return"]
            if not (len(rets) == 1 and rets[0][0] == "c" and rets[0][1] == 1 + width + n_):
                bad_w.append("%d -> %s (want %d)" % (n_, [conn.short(r) for r in rets], 1 + width + n_))
        if bad_w:
            r5.violation("width-table", "%s does not add 1 + the variable-byte-integer width to the Remaining Length: %s" % (g0["path"].split("::")[-1], bad_w[:4]))
        else:
            r5.ok("width-table", "1 + {1,2,3,4} bytes at the boundaries 128 / 16384 / 2097152")
    r5.ok("gate-shape") if not problems else None
    conn.prune_path_cache(F)
