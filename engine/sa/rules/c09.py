"""C09 - stream framing (structural clauses; chunk-independence itself is not decided).

R1  recv() calls feed exactly once, outside any loop, and handles each PacketBuildResult variant: Complete ->
    process_recv_packet, Incomplete -> no event, Error -> cancel timers, RequestClose, NotifyError.
R2  every path of feed that returns Complete or Error calls reset() and touches no reassembly field
    afterwards; reset() is field-wise equal to new() (A5).
R3  no byte is dropped: every successful one-byte read is pushed to header_buf before the next read or
    return; the bulk read writes into raw_buf[offset .. offset+n] and advances offset / remaining_length by
    the number of bytes read.
R4  remaining-length width (exact): starting in state RemainingLength with multiplier in {1,128,128^2,128^3}
    one byte keeps the multiplier in that set while the state is kept, a fifth continuation byte is
    reported as an error after reset(), and the multiplier update cannot overflow.
"""
import conn
import explore
import modref

PB = "mqtt::connection::packet_builder::PacketBuilder"
PBR = "mqtt::connection::packet_builder::PacketBuildResult"
RS = "mqtt::connection::packet_builder::ReadState"



def reset_by_hand(F, N, ex, p, PB, REASM):
    """No reset() call on the path, but its last whole-field writes leave every reassembly field as new() does
    (reset() written out in place).  A push onto a field after its last write disqualifies the path."""
    nv = N.new_values(PB)
    if nv is None:
        return False
    sub = modref.Norm(F, ex.interned_rev)
    sub._re = N._re
    cur = {}
    for e in p.effects:
        if e[0] == "write" and e[1] == ("self",) and e[2] and e[2][0][0] == "f":
            n = e[2][0][2]
            cur[n] = sub.norm(e[3]) if len(e[2]) == 1 else ("UNKNOWN", "partial-write")
        elif e[0] == "push" and e[1] == ("self",):
            for n in REASM:
                if ("'%s'" % n) in repr(e[4:]):
                    cur[n] = ("UNKNOWN", "push")
    return all(n in nv and cur.get(n) == nv[n] for n in REASM)


def discover_roles(F, feed_paths, interned):
    """Reassembly fields by role (type first, then use), so that renaming a private field is not an anchor loss:
    state (the enum), header_buf (byte vector), multiplier (the only u32), raw_buf (optional byte vector),
    raw_buf_offset (the usize that starts the index range of the bulk read), remaining_length (the other usize)."""
    flds = F.adt(PB)["variants"][0]["fields"]
    roles = {}

    def uniq(role, pred):
        c = [f["name"] for f in flds if pred(f["ty"])]
        if len(c) == 1:
            roles[role] = c[0]
    uniq("state", lambda ty: ty in F.adts and F.adts[ty].get("kind") == "enum")
    uniq("header_buf", lambda ty: ty.startswith("std::vec::Vec<u8") or ty.startswith("arrayvec::ArrayVec<u8"))
    uniq("multiplier", lambda ty: ty == "u32")
    uniq("raw_buf", lambda ty: ty.startswith("std::option::Option<"))
    us = [f["name"] for f in flds if f["ty"] == "usize"]
    if len(us) == 2:
        off = set()
        for p in feed_paths:
            for e in p.effects:
                if e[0] == "call" and e[1].endswith("::index_mut") and len(e[3]) > 1:
                    rng = conn.expand_all(interned, e[3][1])
                    if rng[0] == "agg" and rng[2] in ("Range", "RangeFrom"):
                        r = repr(rng[3][0])
                        for n in us:
                            if "'%s'" % n in r:
                                off.add(n)
        if len(off) == 1:
            roles["raw_buf_offset"] = list(off)[0]
            roles["remaining_length"] = [n for n in us if n not in off][0]
    return roles


def check(run, F, tier):
    run.explanation = ("Structural framing obligations from the abstract paths of recv() and PacketBuilder::feed; the remaining-length "
                       "state machine is explored exactly over its finite multiplier domain. Equality of event sequences over all "
                       "chunkings of a stream is NOT decided.")
    ms = conn.gc_methods(F)
    r1 = run.rule("C09-R1", "recv: one feed per call, every build result handled, the cursor is advanced by feed only", floor=4)
    res = conn.paths(F, ms["recv"]["path"], tag="recv-packet")
    seen = {}
    for p in res["paths"]:
        if p.kind != "return":
            continue
        feeds = conn.calls(p, PB + "::feed")
        if len(feeds) != 1:
            r1.violation("feed-count", "recv() calls feed %d times on one path" % len(feeds), conn.path_summary(p))
            continue
        var = conn.possible(F, p, feeds[0][1][4][1], PBR)
        if len(var) != 1:
            r1.violation("unhandled", "recv() does not discriminate the build result on a path", conn.path_summary(p))
            continue
        v = list(var)[0]
        ev = p.events() or ()
        w = ["<process_recv_packet>" if (isinstance(e, tuple) and e and e[0] == "sub") else conn.ev_name(e) for e in ev]
        seen.setdefault(v, set()).add(tuple(x for x in w if not x.startswith("RequestTimerCancel")))
    # the byte cursor belongs to the framer: recv() itself never moves it (skipping or rewinding input on any result would
    # make the outcome depend on how the stream was chunked)
    recv_fn = ms["recv"]
    cur_arg = [i for i in range(1, recv_fn["argc"] + 1) if "Cursor" in recv_fn["locals"][i]]
    movers = []
    if not cur_arg:
        r1.violation("cursor-arg", "recv() has no Cursor parameter (anchor lost)")
    else:
        cname = recv_fn.get("names", {}).get(str(cur_arg[0]), "arg%d" % cur_arg[0])
        for b in recv_fn["blocks"]:
            t = b["term"]
            if t["k"] != "call" or "fn" not in t["func"].get("const", {}):
                continue
            fi = t["func"]["const"]["fn"]
            cp = (fi.get("res") or {}).get("path", fi["path"])
            if cp == PB + "::feed":
                continue
            callee = F.fns.get(cp)
            for ai, a in enumerate(t["args"]):
                pl = a.get("move") or a.get("copy")
                if pl is None:
                    continue
                lty = recv_fn["locals"][pl["l"]]
                # a `&mut Cursor` (the parameter itself or a reborrow of it) handed to anything but feed
                if lty.startswith("&mut") and "Cursor" in lty:
                    movers.append((cp, t.get("line")))
        if movers:
            r1.violation("cursor-moved-by-recv", "recv() passes the input cursor mutably to %s: only PacketBuilder::feed may advance it" % sorted({m[0].split("::")[-1] for m in movers}),
                         site="%s:%s" % (recv_fn["file"], movers[0][1]))
        else:
            r1.ok("cursor-only-advanced-by-feed", cname)
    want = {"Complete": {("<process_recv_packet>",)}, "Incomplete": {()}, "Error": {("RequestClose", "NotifyError(?)")}}
    for v, ws in want.items():
        if seen.get(v) == ws:
            r1.ok(v, sorted(ws))
        else:
            r1.violation(v, "recv(): build result %s yields %s, expected %s" % (v, sorted(seen.get(v, [])), sorted(ws)))

    feed = F.fn(PB + "::feed")
    def inl_pb(exx, callee, info):
        # private helpers of the framer are analysed in context; reset() stays a visible call (R2 looks for it)
        if callee.get("impl_self", "").startswith(PB) and callee.get("name") not in ("reset", "feed", "new"):
            return True
        return explore.default_inline(exx, callee, info)
    ex = explore.Explorer(F, loop_k=1, inline_pred=inl_pb)
    ps = ex.run(feed["path"])
    R = discover_roles(F, ps, ex.interned_rev)
    need = ("state", "header_buf", "remaining_length", "multiplier", "raw_buf", "raw_buf_offset")
    if any(k not in R for k in need):
        run.fail_closed("PacketBuilder reassembly fields not recognised by type/use: found %s" % R)
        return
    REASM = set(R.values())
    run.cov_extra["roles"] = R
    r2 = run.rule("C09-R2", "feed resets the reassembly state on every Complete / Error return", floor=3)
    N = modref.Norm(F)
    if N.reset_equiv(PB + "::reset"):
        r2.ok("reset-equivalence", "PacketBuilder::reset leaves every field as new() does")
    else:
        r2.violation("reset-equivalence", "PacketBuilder::reset is not field-wise equal to new(): %s" % (N._re.get(("why", PB + "::reset")),))
    bad = None
    n = {"Complete": 0, "Error": 0}
    for p in ps:
        if p.kind != "return" or not (p.ret and p.ret[0] == "agg" and p.ret[1] == PBR):
            continue
        v = p.ret[2]
        if v not in n:
            continue
        n[v] += 1
        rs = [i for i, e in conn.calls(p, PB + "::reset")]
        if not rs:
            if not reset_by_hand(F, N, ex, p, PB, REASM):
                bad = (p, "%s returned without reset()" % v)
            continue
        after = [e for e in p.effects[rs[-1] + 1:] if e[0] == "write" and e[1] == ("self",) and conn.field_of_write(e) in REASM and
                 not (e[3][0] == "sym" and e[3][1][0] == "mut" and e[3][1][1][0].endswith("::reset"))]
        if after:
            bad = (p, "%s: reassembly field %s written after reset()" % (v, conn.field_of_write(after[0])))
    if bad:
        r2.violation("reset-before-return", "feed: %s" % bad[1], conn.path_summary(bad[0]), site="%s:%s" % (feed["file"], feed["line"]))
    elif not all(n.values()):
        r2.violation("reset-before-return", "feed: Complete/Error paths not found (%s)" % n)
    else:
        r2.ok("reset-before-return/Complete", n["Complete"])
        r2.ok("reset-before-return/Error", n["Error"])

    r3 = run.rule("C09-R3", "no byte dropped: header bytes pushed, payload bytes written in place with offset/remaining advanced", floor=2)
    problems = {}
    n_hdr = n_bulk = 0
    for p in ps:
        if p.kind not in ("return", "cut"):
            continue
        evs = [(i, e) for i, e in enumerate(p.effects) if e[0] == "call"]
        for idx, (i, e) in enumerate(evs):
            if e[1].endswith("Cursor::<T>::read_exact"):
                okr = conn.possible(F, p, e[4][1], "std::result::Result") if e[4][0] == "sym" else set()
                if okr != {"Ok"}:
                    continue
                n_hdr += 1
                pushed = False
                for x in p.effects[i + 1:]:
                    if x[0] == "push" and x[1] == ("self",) and len(x) > 4 and ("'%s'" % R["header_buf"]) in repr(x[4]):
                        pushed = True
                        break
                    if x[0] == "call" and x[1].split("::")[-1] in ("read_exact", "read"):
                        break
                if not pushed:
                    problems.setdefault("a header byte is read but not appended to header_buf before the next read / return", p)
            if e[1].endswith("Cursor::<T>::read"):
                n_bulk += 1
                # the slice handed to read() is raw_buf[offset .. offset+n]: the index_mut call mutably borrows
                # self.raw_buf's payload and its Range starts at the current raw_buf_offset
                im = [(j, x) for j, x in enumerate(p.effects[:i]) if x[0] == "call" and x[1].endswith("::index_mut")]
                okslice = False
                if im:
                    j, x = im[-1]
                    wr = [w for w in p.effects[j:j + 3] if w[0] == "write" and conn.field_of_write(w) == R["raw_buf"]]
                    rng = x[3][1] if len(x[3]) > 1 else None
                    offs = [w for w in p.effects[:j] if w[0] == "write" and conn.field_of_write(w) == R["raw_buf_offset"]]
                    start = rng[3][0] if rng and rng[0] == "agg" and rng[2] == "Range" else None
                    if offs:
                        okstart = start == offs[-1][3]
                    else:
                        okstart = start is not None and start[0] == "sym" and start[1][0] == "init" and ("'%s'" % R["raw_buf_offset"]) in repr(start)
                    okslice = bool(wr) and okstart
                if not okslice:
                    problems.setdefault("bulk read does not target raw_buf[raw_buf_offset ..]", p)
                later = p.effects[i:]
                adv = [w for w in later if w[0] == "write" and conn.field_of_write(w) == R["raw_buf_offset"]]
                dec = [w for w in later if w[0] == "write" and conn.field_of_write(w) == R["remaining_length"]]
                rterm = repr(e[4])
                if not adv or "'Add'" not in repr(adv[0][3]) or "Cursor::<T>::read" not in repr(conn.expand_all(ex.interned_rev, adv[0][3])):
                    problems.setdefault("raw_buf_offset is not advanced by the number of bytes read", p)
                if not dec or "'Sub'" not in repr(dec[0][3]) or "Cursor::<T>::read" not in repr(conn.expand_all(ex.interned_rev, dec[0][3])):
                    problems.setdefault("remaining_length is not reduced by the number of bytes read", p)
    if n_hdr == 0 or n_bulk == 0:
        problems.setdefault("header reads=%d bulk reads=%d (anchor lost)" % (n_hdr, n_bulk), None)
    for pr, p in sorted(problems.items()):
        r3.violation(pr, "feed: " + pr, conn.path_summary(p) if p else None, site="%s:%s" % (feed["file"], feed["line"]))
    if not problems:
        r3.ok("header-bytes", n_hdr)
        r3.ok("payload-bytes", n_bulk)

    # ------------------------------------------------------------------ R4
    r4 = run.rule("C09-R4", "remaining length is at most four bytes; multiplier stays in {1,128,16384,2097152} and never overflows", floor=4, kind="E")
    pbf = {f["name"]: f for f in F.adt(PB)["variants"][0]["fields"]}
    dom = [1, 128, 128 * 128, 128 * 128 * 128]
    for m in dom:
        def setup(exx, st, fr, m=m):
            st.heap[(("self",), (("f", pbf[R["multiplier"]]["i"], R["multiplier"]),))] = ("c", m, "u32")
            st.heap[(("self",), (("f", pbf[R["state"]]["i"], R["state"]),))] = ("agg", RS, "RemainingLength", ())
        ex2 = explore.Explorer(F, loop_k=0, inline_pred=inl_pb)
        ps2 = ex2.run(feed["path"], setup=setup)
        problems = []
        cont_err = False
        n = 0
        for p in ps2:
            if p.kind == "panic":
                problems.append("arithmetic panic reachable: %s" % [e for e in p.effects if e[0] == "assert" and e[3] == "fails"][:1])
                continue
            if p.kind not in ("return", "cut"):
                continue
            n += 1
            for e in p.effects:
                if e[0] == "assert" and e[3] == "open" and e[4][0] == "Mul" and ("'%s'" % R["multiplier"]) in repr(conn.expand_all(ex2.interned_rev, e[4])):
                    problems.append("multiplier update may overflow (not decided) at line %s" % e[2][1])
            # final state / multiplier
            st_w = [e for e in p.effects if e[0] == "write" and conn.field_of_write(e) == R["state"]]
            mu_w = [e for e in p.effects if e[0] == "write" and conn.field_of_write(e) == R["multiplier"]]
            reset = bool(conn.calls(p, PB + "::reset")) or reset_by_hand(F, N, ex2, p, PB, REASM)
            final_state = st_w[-1][3][2] if st_w and st_w[-1][3][0] == "agg" else "RemainingLength"
            if not reset and final_state == "RemainingLength" and mu_w:
                v = mu_w[-1][3]
                if not (v[0] == "c" and v[1] in dom):
                    problems.append("state stays RemainingLength with multiplier %s outside the 4-byte domain" % conn.short(v))
            if p.kind == "return" and p.ret and p.ret[0] == "agg" and p.ret[2] == "Error":
                if not reset:
                    problems.append("Error returned without reset()")
                cont_err = True
        key = "multiplier=%d" % m
        if m == dom[-1] and not cont_err:
            problems.append("a continuation bit in the fourth length byte is not reported as an error")
        if m != dom[-1] and cont_err:
            problems.append("an error is reported before the fourth length byte")
        if n == 0:
            problems.append("no path explored")
        if problems:
            r4.violation(key, "feed in state RemainingLength with multiplier %d: %s" % (m, "; ".join(sorted(set(problems)))), site="%s:%s" % (feed["file"], feed["line"]))
        else:
            r4.ok(key, {"paths": n})
    run.cov_extra["exhaustive_r4"] = True
