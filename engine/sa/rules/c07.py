"""C07 - inbound QoS 2 is delivered exactly once per exchange (per-step obligations).

R1  NotifyPacketReceived(PUBLISH QoS 2) only on paths where qos2_publish_handled.insert(id) returned true;
    when it returned false and status is Connected a PUBREC is requested regardless of auto_pub_response.
R2  every successfully parsed PUBREL path removes the id from the set; the v5 PUBREC send path with a
    failing reason code does too.
R3  no swallow: a path on which insert returned true reaches the notification or removes the id again
    before returning.
R4  new session => set emptied (decided under C10-R2; re-checked here for the set only).
R5  who-may-write: the set is written only by the discovered functions (reference list).
"""
import conn
import modref

SET = "qos2_publish_handled"
EXPECTED_WRITERS = {"process_recv_v3_1_1_publish", "process_recv_v5_0_publish", "process_recv_v3_1_1_pubrel", "process_recv_v5_0_pubrel",
                    "process_send_v5_0_pubrec", "notify_closed", "clear_store_related", "restore_qos2_publish_handled", "new"}


def set_calls(p, method):
    return [(i, e) for i, e in conn.calls(p, "HashSet::<T, S, A>::" + method) if SET in repr(e[3][0])]


def check(run, F, tier):
    run.explanation = "Per-step obligations of QoS 2 exactly-once delivery on all abstract paths of the PUBLISH/PUBREL receive handlers and the v5 PUBREC send handler."
    ms = conn.gc_methods(F)
    recvh = conn.handlers(F, "process_recv")
    sendh = conn.handlers(F, "process_send")

    def P(f):
        r = conn.paths(F, f["path"])
        return [p for p in r["paths"] if p.kind == "return"], r["interned"]

    r1 = run.rule("C07-R1", "QoS 2 PUBLISH notified only when first seen; duplicates answered with PUBREC", floor=2)
    r3 = run.rule("C07-R3", "a first-seen QoS 2 PUBLISH is notified or un-marked before the handler returns", floor=2)
    for ver in ("v3_1_1", "v5_0"):
        f = recvh[(ver, "publish")]
        ps, interned = P(f)
        problems = {}
        swallow = {}
        n_first = n_dup = 0
        for p in ps:
            q = conn.qos_of(F, p)
            if q != {"ExactlyOnce"}:
                continue
            ins = set_calls(p, "insert")
            con = set_calls(p, "contains")
            w = conn.word(p) or []
            notified = "NotifyPacketReceived" in w
            # first-seen decision: `insert(id)` returned true, or `contains(&id)` returned false (two idioms)
            dec = sorted(ins + con, key=lambda x: x[0])
            if not dec:
                if notified:
                    problems.setdefault("QoS 2 PUBLISH notified on a path that never consulted the handled set", p)
                continue
            first_call = dec[0][1]
            is_insert = first_call[1].endswith("::insert")
            t = conn.truth(p, first_call)
            if t is None:
                # the test's result is never looked at on this path (e.g. it ends in an error before the decision point):
                # acceptable as long as nothing is delivered and nothing is recorded
                if notified or ins:
                    problems.setdefault("path delivers / records without branching on the result of the handled-set test", p)
                continue
            first_seen = t if is_insert else (not t)
            if not first_seen:
                n_dup += 1
                if notified:
                    problems.setdefault("duplicate QoS 2 PUBLISH (already in the handled set) is notified again", p)
                sts = conn.status_at_entry(F, p)
                errs = conn.errors(p)
                if sts == {"Connected"} and not errs:
                    sent = [e for e in p.effects if e[0] == "enter" and e[1].endswith("process_send_%s_pubrec" % ver)]
                    if not sent:
                        problems.setdefault("duplicate QoS 2 PUBLISH on a Connected connection is not answered with PUBREC", p)
            else:
                n_first += 1
                rem = set_calls(p, "remove")
                marked = bool(ins)
                if notified and not marked:
                    problems.setdefault("first-seen QoS 2 PUBLISH is notified but never recorded in the handled set (a retransmission would be delivered twice)", p)
                if marked and not notified and not rem:
                    errs = ",".join(conn.errors(p)) or "no error"
                    swallow.setdefault("%s" % errs, p)
        key = f["name"]
        if n_first == 0 or n_dup == 0:
            problems.setdefault("first=%d duplicate=%d paths (anchor lost)" % (n_first, n_dup), None)
        if problems:
            for pr, p in sorted(problems.items()):
                r1.violation("%s/%s" % (key, pr), "%s: %s" % (key, pr), conn.path_summary(p) if p else None, site="%s:%s" % (f["file"], f["line"]))
        else:
            r1.ok(key, {"first_seen_paths": n_first, "duplicate_paths": n_dup})
        if swallow:
            for pr, p in sorted(swallow.items()):
                r3.violation("%s/%s" % (key, pr), "%s: id marked handled, then the handler returns (%s) without notifying and without un-marking it" % (key, pr),
                             conn.path_summary(p), site="%s:%s" % (f["file"], f["line"]))
        else:
            r3.ok(key)

    r2 = run.rule("C07-R2", "PUBREL (and a failing PUBREC sent) releases the handled mark", floor=3)
    for ver in ("v3_1_1", "v5_0"):
        f = recvh[(ver, "pubrel")]
        ps, interned = P(f)
        bad = None
        n = 0
        for p in ps:
            w = conn.word(p) or []
            if "NotifyPacketReceived" not in w:
                continue
            n += 1
            if not set_calls(p, "remove"):
                bad = p
        if bad or n == 0:
            r2.violation(f["name"], "%s: a parsed PUBREL does not remove its id from qos2_publish_handled" % f["name"], conn.path_summary(bad) if bad else None)
        else:
            r2.ok(f["name"], {"paths": n})
    f = sendh[("v5_0", "pubrec")]
    ps, interned = P(f)
    bad = None
    n = 0
    for p in ps:
        w = conn.word(p) or []
        if "RequestSendPacket" not in w:
            continue
        failing = conn.rc_failing(p)
        if failing is True:
            n += 1
            if not set_calls(p, "remove"):
                bad = p
        elif failing is False:
            if set_calls(p, "remove"):
                bad = p
    if bad or n == 0:
        r2.violation(f["name"], "process_send_v5_0_pubrec: handled mark not released exactly on failing reason codes", conn.path_summary(bad) if bad else None)
    else:
        r2.ok(f["name"], {"failing_paths": n})

    r4 = run.rule("C07-R4", "a new session empties the handled set (clear_store_related; notify_closed when the session is not stored)", floor=2)
    N = modref.Norm(F)
    pv = N.post_values(ms["clear_store_related"]["path"])
    if pv and all(cur[SET] == ("EMPTY",) for _, cur in pv):
        r4.ok("clear_store_related")
    else:
        r4.violation("clear_store_related", "clear_store_related (run on every new session, C10-R2) does not empty qos2_publish_handled")

    # a session that is not stored dies with the transport: notify_closed empties the set whenever need_store is false
    nc = ms["notify_closed"]["path"]
    pvc = N.post_values(nc)
    badc = [p for p, cur in pvc if False in conn.bool_field_at_entry(F, p, "need_store") and cur[SET] != ("EMPTY",)]
    nns = sum(1 for p, cur in pvc if conn.bool_field_at_entry(F, p, "need_store") == {False})
    if not pvc or nns == 0:
        r4.violation("notify_closed", "notify_closed: no path with need_store == false found (anchor lost)")
    elif badc:
        r4.violation("notify_closed", "notify_closed leaves qos2_publish_handled populated although the session is not stored (need_store == false)",
                     conn.path_summary(badc[0]))
    else:
        r4.ok("notify_closed", {"paths_not_stored": nns})

    r5 = run.rule("C07-R5", "who-may-write qos2_publish_handled (reference list)", floor=1)
    extra, writers = conn.offending_writers(F, SET, EXPECTED_WRITERS)
    if extra:
        r5.violation("writers", "qos2_publish_handled is written by %s, outside the reference list" % sorted(extra))
    else:
        r5.ok("writers", sorted(writers))
    conn.prune_path_cache(F)
