"""C06 - outbound QoS 1/2: stored until acknowledged, retransmitted on session resume.

R1  accepted => sent or stored: a QoS>0 PUBLISH send path without an error event calls store.add or emits.
R2  stored form: the value given to store.add derives from the caller's packet through set_dup(true) and,
    for v5.0, through remove_topic_alias / remove_topic_alias_add_topic.
R3  matching acknowledgement only: store.erase / release / counter changes happen only where
    pid_K.remove(id) is true, with the ResponsePacket constant of the handler's own kind and version;
    on the false path only the error path's writes occur and ProtocolError is reported.
R4  resume: CONNACK with session present (received) / success (sent) enters send_stored with no other send
    request in between; session not present enters clear_store_related; send_stored re-emits the stored
    element unchanged or releases + announces a dropped one.
R5  PUBREL is stored when the session is persistent and awaited (pid_pubcomp.insert) on every accepted path.
R6  a CONNACK on an established connection reaches neither send_stored nor clear_store_related.
"""
import re

import conn
import explore

ADD = "GenericStore::<PacketIdType>::add"
ERASE = "GenericStore::<PacketIdType>::erase"


def check(run, F, tier):
    run.explanation = "Per-step obligations of the outbound QoS bookkeeping evaluated on all abstract paths of the PUBLISH/PUBREL send handlers, the acknowledgement and CONNACK handlers and send_stored."
    ms = conn.gc_methods(F)
    recvh = conn.handlers(F, "process_recv")
    sendh = conn.handlers(F, "process_send")

    def P(f, tag=""):
        r = conn.paths(F, f["path"], tag=tag)
        return [p for p in r["paths"] if p.kind == "return"], r["interned"]

    # ------------------------------------------------------------------ R1 / R2
    r1 = run.rule("C06-R1", "an accepted QoS>0 PUBLISH is either requested for sending or stored", floor=2)
    r2 = run.rule("C06-R2", "stored copy: DUP set, alias stripped (v5), derived from the accepted packet", floor=3)
    for ver in ("v3_1_1", "v5_0"):
        f = sendh[(ver, "publish")]
        ps, interned = P(f)
        dropped = {}
        cnt = 0
        stored_forms = {}
        for p in ps:
            q = conn.qos_of(F, p)
            if q == {"AtMostOnce"}:
                continue
            adds = conn.calls(p, ADD)
            for i, e in adds:
                form = conn.expand_all(interned, e[3][1])
                s = repr(form)
                okf = "set_dup" in s and "('arg', 'packet')" in s
                if ver == "v5_0":
                    okf = okf and ("remove_topic_alias" in s)
                # DUP must be true
                okf = okf and ("set_dup', (" in s and "('c', 1, 'bool')" in s)
                stored_forms.setdefault(okf, (p, s[:400]))
            if conn.errors(p):
                continue
            cnt += 1
            w = conn.word(p) or []
            if not adds and "RequestSendPacket" not in w:
                sts = sorted(conn.status_at_entry(F, p))
                ns = sorted(conn.bool_field_at_entry(F, p, "need_store"))
                op = sorted(conn.bool_field_at_entry(F, p, "offline_publish"))
                # one case per (status, need_store, offline_publish) cell: how the code happens to group the cells into paths
                # (one test on `status != Connected`, or a match with one arm per status) must not change the identity of the case
                for st_ in sts:
                    for n_ in ns:
                        for o_ in op:
                            dropped.setdefault("status=%s/need_store=%s/offline_publish=%s" % (st_, n_, o_), p)
        for k, p in sorted(dropped.items()):
            r1.violation("%s/%s" % (f["name"], k), "%s accepts a QoS>0 PUBLISH (no error event) but neither stores nor sends it when %s" % (f["name"], k),
                         conn.path_summary(p), site="%s:%s" % (f["file"], f["line"]))
        if not dropped:
            r1.ok(f["name"], {"accepted_paths": cnt})
        if not stored_forms:
            r2.violation(f["name"], "no store.add found in %s" % f["name"])
        elif False in stored_forms:
            p, s = stored_forms[False]
            r2.violation(f["name"], "%s stores a packet that is not set_dup(true)%s of the caller's packet: %s" % (
                f["name"], " + alias-stripped" if ver == "v5_0" else "", s), conn.path_summary(p))
        else:
            r2.ok(f["name"], stored_forms[True][1][:200])
    # v5: which alias-stripping form on which topic shape
    f = sendh[("v5_0", "publish")]
    ps, interned = P(f)
    bad = None
    n = 0
    for p in ps:
        for i, e in conn.calls(p, ADD):
            s = repr(conn.expand_all(interned, e[3][1]))
            emp = [conn.truth(p, c) for _, c in conn.calls(p, "::is_empty")]
            n += 1
            if emp and emp[0] is True and "remove_topic_alias_add_topic" not in s:
                bad = p
            if emp and emp[0] is False and ("remove_topic_alias'" not in s and 'remove_topic_alias"' not in s and "::remove_topic_alias," not in s and "remove_topic_alias" not in s):
                bad = p
    if bad:
        r2.violation("v5/alias-form", "v5 stored copy does not restore the topic for an empty-topic publish", conn.path_summary(bad))
    else:
        r2.ok("v5/alias-form", {"store_sites_on_paths": n})

    # ------------------------------------------------------------------ R3
    r3 = run.rule("C06-R3", "only the matching acknowledgement erases / releases; a non-matching one changes nothing and is a protocol error", floor=6)
    resp = {("v3_1_1", "puback"): "V3_1_1Puback", ("v3_1_1", "pubrec"): "V3_1_1Pubrec", ("v3_1_1", "pubcomp"): "V3_1_1Pubcomp",
            ("v5_0", "puback"): "V5_0Puback", ("v5_0", "pubrec"): "V5_0Pubrec", ("v5_0", "pubcomp"): "V5_0Pubcomp"}
    pidset = {"puback": "pid_puback", "pubrec": "pid_pubrec", "pubcomp": "pid_pubcomp"}
    for (ver, kind), const in sorted(resp.items()):
        f = recvh[(ver, kind)]
        ps, interned = P(f)
        problems = {}
        matched = unmatched = 0
        for p in ps:
            rem = [(i, e) for i, e in conn.calls(p, "HashSet::<T, S, A>::remove") if pidset[kind] in repr(e[3][0])]
            wrong_set = [(i, e) for i, e in conn.calls(p, "HashSet::<T, S, A>::remove") if "pid_" in repr(e[3][0]) and pidset[kind] not in repr(e[3][0])]
            if wrong_set:
                problems.setdefault("removes from a pid set other than %s" % pidset[kind], p)
            er = conn.calls(p, ERASE)
            if not rem:
                if er:
                    problems.setdefault("store.erase on a path without %s.remove" % pidset[kind], p)
                continue
            t = conn.truth(p, rem[0][1])
            if t is True:
                matched += 1
                if not er:
                    problems.setdefault("matched path does not erase the stored packet", p)
                for i, e in er:
                    a = e[3][1]
                    if not (a[0] == "agg" and a[2] == const):
                        problems.setdefault("store.erase called with %s, expected ResponsePacket::%s" % (conn.short(a), const), p)
                    if e[3][2] != rem[0][1][3][1]:
                        problems.setdefault("store.erase called with a different id than the one matched", p)
            elif t is False:
                unmatched += 1
                ws = sorted({fld for fld, how, e in conn.effective_writes(F, p)} - {"status", "pingreq_send_set", "pingreq_recv_set", "pingresp_recv_set"})
                if ws:
                    problems.setdefault("non-matching acknowledgement writes %s" % ws, p)
                if er:
                    problems.setdefault("non-matching acknowledgement erases from the store", p)
                errs = conn.errors(p)
                if "NotifyError(ProtocolError)" not in errs and not any("ProtocolError" in x for x in errs):
                    problems.setdefault("non-matching acknowledgement is not reported as ProtocolError (%s)" % errs, p)
                if "NotifyPacketReceived" in (conn.word(p) or []):
                    problems.setdefault("non-matching acknowledgement is delivered", p)
            else:
                problems.setdefault("path does not branch on the result of %s.remove" % pidset[kind], p)
        key = f["name"]
        if matched == 0 or unmatched == 0:
            problems.setdefault("matched=%d unmatched=%d paths (anchor lost)" % (matched, unmatched), None)
        if problems:
            for pr, p in sorted(problems.items()):
                r3.violation("%s/%s" % (key, pr), "%s: %s" % (key, pr), conn.path_summary(p) if p else None, site="%s:%s" % (f["file"], f["line"]))
        else:
            r3.ok(key, {"matched": matched, "unmatched": unmatched})

    # ------------------------------------------------------------------ R4 / R6
    r4 = run.rule("C06-R4", "session resume: send_stored right after CONNACK when the session is present; store cleared when not", floor=5)
    for key, f, flagm in (("recv_v3_1_1", recvh[("v3_1_1", "connack")], "session_present"), ("recv_v5_0", recvh[("v5_0", "connack")], "session_present"),
                          ("send_v3_1_1", sendh[("v3_1_1", "connack")], None), ("send_v5_0", sendh[("v5_0", "connack")], None)):
        ps, interned = P(f)
        problems = {}
        n_res = n_new = 0
        for p in ps:
            w = conn.word(p) or []
            became_connected = any(e[0] == "write" and conn.field_of_write(e) == "status" and e[3][0] == "agg" and e[3][2] == "Connected" for e in p.effects)
            if not became_connected:
                if conn.entered(p, "send_stored") or conn.entered(p, "clear_store_related"):
                    problems.setdefault("send_stored / clear_store_related reached on a path that does not establish the connection", p)
                continue
            ss = conn.entered(p, "send_stored")
            cl = conn.entered(p, "clear_store_related")
            if flagm:
                sp = [conn.truth(p, e) for _, e in conn.calls(p, "::" + flagm)]
                sp = sp[0] if sp else None
                if sp is True:
                    n_res += 1
                    if not ss:
                        problems.setdefault("session present but send_stored is not called", p)
                    if cl and not any("SessionExpiryInterval" in repr(k) for k in p.cons):
                        # clear via Session Expiry 0 is a separate, spec-mandated path
                        problems.setdefault("session present but the store is cleared", p)
                elif sp is False:
                    n_new += 1
                    if not cl:
                        problems.setdefault("session not present but clear_store_related is not called", p)
                    if ss:
                        problems.setdefault("session not present but send_stored is called", p)
            else:
                n_res += 1
                if not ss:
                    problems.setdefault("successful CONNACK sent but send_stored is not called", p)
                # order: CONNACK first, then stored packets, nothing else in between
                ev = p.events() or ()
                sends = [i for i, e in enumerate(ev) if conn.is_event(e, "RequestSendPacket")]
                if not sends or "('arg', 'packet')" not in repr(ev[sends[0]]):
                    problems.setdefault("the first send request on the resume path is not the CONNACK", p)
        if n_res == 0:
            problems.setdefault("no resume path found (anchor lost)", None)
        if problems:
            for pr, p in sorted(problems.items()):
                r4.violation("%s/%s" % (f["name"], pr), "%s: %s" % (f["name"], pr), conn.path_summary(p) if p else None)
        else:
            r4.ok(f["name"], {"resume_paths": n_res, "new_session_paths": n_new})
    # send_stored itself
    f = ms["send_stored"]
    ps, interned = P(f)
    problems = {}
    kept = droppedn = 0
    for p in ps:
        cr = [e for e in p.effects if e[0] == "closure_ret"]
        for e in cr:
            pass
        pu = conn.pushes(p)
        for i, ev in pu:
            if conn.is_event(ev, "RequestSendPacket"):
                kept += 1
                s = repr(conn.expand_all(interned, ev[3][0]))
                if "('elem'," not in s or "clone" in s and False:
                    problems.setdefault("re-emitted packet is not the stored element", p)
                if "set_" in s or "remove_" in s or "add_" in s:
                    problems.setdefault("re-emitted packet is modified before sending", p)
            if conn.is_event(ev, "NotifyPacketIdReleased"):
                droppedn += 1
                if not conn.calls(p, "PacketIdManager::<T>::release_id"):
                    problems.setdefault("dropped stored packet announced without release", p)
    if kept == 0 or droppedn == 0:
        problems.setdefault("send_stored closure shape not recognised (kept=%d dropped=%d)" % (kept, droppedn), None)
    if problems:
        for pr, p in sorted(problems.items()):
            r4.violation("send_stored/" + pr, "send_stored: " + pr, conn.path_summary(p) if p else None)
    else:
        r4.ok("send_stored", {"kept": kept, "dropped": droppedn})

    # ------------------------------------------------------------------ R5
    r5 = run.rule("C06-R5", "PUBREL: stored when the session is persistent, awaited on every accepted path", floor=2)
    for ver in ("v3_1_1", "v5_0"):
        f = sendh[(ver, "pubrel")]
        ps, interned = P(f)
        problems = {}
        cnt = 0
        for p in ps:
            if conn.errors(p):
                continue
            cnt += 1
            ns = conn.bool_field_at_entry(F, p, "need_store")
            adds = conn.calls(p, ADD)
            ins = [e for i, e in conn.calls(p, "HashSet::<T, S, A>::insert") if "pid_pubcomp" in repr(e[3][0])]
            if ns == {True} and not adds:
                problems.setdefault("persistent session but the PUBREL is not stored", p)
            if ns == {False} and adds:
                problems.setdefault("PUBREL stored although the session is not persistent", p)
            if not ins:
                problems.setdefault("accepted PUBREL is not recorded in pid_pubcomp (its PUBCOMP would be rejected)", p)
        if problems:
            for pr, p in sorted(problems.items()):
                r5.violation("%s/%s" % (f["name"], pr), "%s: %s" % (f["name"], pr), conn.path_summary(p), site="%s:%s" % (f["file"], f["line"]))
        elif cnt == 0:
            r5.violation(f["name"], "no accepted path")
        else:
            r5.ok(f["name"], {"accepted_paths": cnt})

    # ------------------------------------------------------------------ R6
    r6 = run.rule("C06-R6", "CONNACK on an established connection neither re-sends nor clears the store", floor=2)
    for ver in ("v3_1_1", "v5_0"):
        f = recvh[(ver, "connack")]
        ps, interned = P(f)
        bad = None
        n = 0
        for p in ps:
            if "Connected" not in conn.status_at_entry(F, p):
                continue
            n += 1
            if conn.entered(p, "send_stored") or conn.entered(p, "clear_store_related"):
                bad = p
        if bad or n == 0:
            r6.violation(f["name"], "%s with status=Connected reaches send_stored/clear_store_related" % f["name"], conn.path_summary(bad) if bad else None)
        else:
            r6.ok(f["name"], {"paths": n})
    # ------------------------------------------------------------------ R7
    r7 = run.rule("C06-R7", "the store keeps insertion order: no order-disturbing IndexMap operation in GenericStore", floor=1)
    bad = []
    n = 0
    for g in F.fns.values():
        if not g.get("impl_self", "").startswith("mqtt::connection::store::GenericStore<") and not (g.get("kind") == "Closure" and "connection::store::" in g["path"]):
            continue
        for b in g["blocks"]:
            t = b["term"]
            if t["k"] == "call" and "fn" in t["func"].get("const", {}):
                fi = t["func"]["const"]["fn"]
                if fi["path"].startswith("indexmap::"):
                    n += 1
                    if re.search(r"::(swap_remove\w*|swap_indices|move_index|sort\w*|reverse|pop|swap_take)$", fi["path"]):
                        bad.append("%s calls %s" % (g["path"].split("::")[-1], fi["path"]))
    if bad:
        for b_ in bad:
            r7.violation(b_.split(" calls ")[1].split("::")[-1] + "@" + b_.split(" ")[0], "GenericStore: %s (retransmission 'in store order' needs an order-preserving removal)" % b_)
    elif n == 0:
        r7.violation("anchor", "no IndexMap operation found in GenericStore (anchor lost)")
    else:
        r7.ok("indexmap-ops", {"indexmap_calls": n})
    # ------------------------------------------------------------------ R8: the store removes by kind
    r8 = run.rule("C06-R8", "GenericStore::erase / erase_publish remove an entry only after testing the kind of packet stored under the id", floor=2)
    RESP = "mqtt::packet::enum_store_packet::ResponsePacket"

    def inl_store(exx, callee, info):
        return callee.get("impl_self", "").startswith("mqtt::connection::store::GenericStore<") or callee.get("kind") == "Closure"
    REMOVE_RE = re.compile(r"::(shift_remove\w*|swap_remove\w*|remove|remove_entry)$")
    rvars = [v["name"] for v in F.adt(RESP)["variants"]]
    for name in ("erase", "erase_publish"):
        cands = [g for g in F.fns.values() if g.get("name") == name and g.get("impl_self", "").startswith("mqtt::connection::store::GenericStore<")]
        if len(cands) != 1:
            r8.violation(name, "GenericStore::%s not found (anchor lost)" % name)
            continue
        g = cands[0]
        an = None
        for i_ in range(1, g["argc"] + 1):
            if g["locals"][i_] == RESP:
                an = i_
        problems8 = []
        nrem = 0
        # evaluated per kind of stored packet: the stored packet's response_packet() is fixed to one concrete variant per
        # run (and, for erase, the requested kind to each variant in turn); whatever the idiom (==, matches!, a closure
        # handed to a shared helper) the outcome is read off what the run does
        for stored in rvars:
            for asked in (rvars if name == "erase" else [None]):
                def hook(exx, st, pth, args, argterms, info, stored=stored):
                    if pth.endswith("::response_packet"):
                        return ("agg", RESP, stored, ())
                    return None

                def setup8(exx, st, fr, asked=asked):
                    if asked is not None and an is not None:
                        st.heap[(fr.root(an), ())] = ("agg", RESP, asked, ())
                ex8 = explore.Explorer(F, inline_pred=inl_store, opaque_hook=hook)
                for p in ex8.run(g["path"], setup=setup8):
                    if p.kind != "return":
                        continue
                    calls_ = [e for e in p.effects if e[0] == "call"]
                    removed = any(REMOVE_RE.search(e[1]) and "indexmap" in e[1] for e in calls_)
                    looked = any(e[1].endswith("::response_packet") for e in calls_)
                    if removed:
                        nrem += 1
                    want = (stored == asked) if name == "erase" else (stored.endswith("Puback") or stored.endswith("Pubrec"))
                    if removed and not looked:
                        problems8.append("removes the entry without looking at the kind of the stored packet")
                    elif removed and not want:
                        problems8.append("removes a stored packet awaiting %s%s" % (stored, (" when asked for %s" % asked) if asked else " (not a PUBLISH)"))
                    elif looked and want and not removed:
                        problems8.append("keeps a stored packet awaiting %s%s although it was found" % (stored, (" when asked for %s" % asked) if asked else ""))
        if nrem == 0:
            r8.violation(name, "GenericStore::%s has no removing path (anchor lost)" % name)
        elif problems8:
            r8.violation(name, "GenericStore::%s %s" % (name, sorted(set(problems8))[0]), {"all": sorted(set(problems8))[:8]}, site="%s:%s" % (g["file"], g["line"]))
        else:
            r8.ok(name, {"removing_runs": nrem})
    conn.prune_path_cache(F)
