#!/bin/sh
# Build the fact driver (nightly, rustc_private, zero dependencies) and warm the fact cache.
set -e
cd "$(dirname "$0")"
export CARGO_NET_OFFLINE=true
(cd engine/driver && cargo +nightly build --release --offline)
python3 - <<'PY'
import sys
sys.path.insert(0, "engine/sa")
import facts
print(facts.extract("default", quiet=False))
PY
